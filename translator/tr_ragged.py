"""enspara/ra/ra.py, read path of RaggedArray  ->  Gen/RaGen.v   (fail-closed)

What is regenerated from the current source:
  * `_slice_to_list`           whole body, by the dynamic scalar translator below (values that are an int or
                               None, `is None` tests, comparisons/additions that raise on None, early
                               `return`/`raise`, `range(...)`, `range(*sl.indices(n))`)
  * `_handle_negative_indices` the scalar tests `x < 0` of the np.where / .sum() lines and the wrap
                               expressions of the `+=` lines (row: `+ len(starts)`, column: `+ lengths[row]`)
  * `_convert_from_2d`         the bound test `lengths[first] <= second` and the offset `starts[first] + second`;
                               the conversion of the two index vectors (`_index_array`, pinned whole) and their
                               pairing by `np.broadcast_arrays` are pinned as text (-> gen_c2_pairs)
  * `_convert_from_1d`         the search test `starts <= ii` and the column expression `ii - starts[row]`
  * `starts`                   the vector expression `np.append([0], np.cumsum(lengths)[:-1])` (property and the
                               two fall-backs; all three must agree)
The NumPy-vectorised statements themselves are recognised by shape (anything else: TranslatorReject) and the
translated scalars are plugged into the fixed per-element skeletons of Base/RaBase.v.  `_get_iis_from_slices`,
`_get_iis_from_list`, `where` and the call sites in `RaggedArray.__getitem__` are pinned as fixed text."""
import ast
from pyast import parse_file, find_func, reject, strip_doc
from py2coq import Tr

REL = "enspara/ra/ra.py"
U = ast.unparse


# ============================================================================ dynamic scalar translator
class Dyn:
    """Python scalar code over values that are an int or None -> Gallina in the `pyres` monad of RaBase.v.
    Types: 'V' pyv (int or None), 'S' pyslice, 'B' bool, 'L' list Z (a range).
    expr() returns (term, type, pure): a pure term has the Coq type itself, an impure one `pyres` of it."""

    CMP = {ast.Lt: "py_lt", ast.LtE: "py_le", ast.Gt: "py_gt", ast.GtE: "py_ge"}
    ARITH = {ast.Add: "py_add", ast.Sub: "py_sub"}

    def __init__(self):
        self.n = 0

    def fresh(self):
        self.n += 1
        return "t%d" % self.n

    # -------------------------------------------------------------- expressions
    def vals(self, es, env, tys, build):
        """Translate operands left to right, bind the impure ones, then build(list of pure terms) must give
        an impure term."""
        parts = []
        for e, ty in zip(es, tys):
            t, got, pure = self.expr(e, env)
            if got != ty:
                reject(e, "operand of type %s where %s expected" % (got, ty))
            parts.append((t, pure))
        names = []
        binds = []
        for t, pure in parts:
            if pure:
                names.append(t)
            else:
                x = self.fresh()
                names.append(x)
                binds.append((t, x))
        code = build(names)
        for t, x in reversed(binds):
            code = "(py_bind %s (fun %s => %s))" % (t, x, code)
        return code

    def expr(self, e, env):
        if isinstance(e, ast.Constant):
            if e.value is None:
                return "py_none", "V", True
            if isinstance(e.value, int) and not isinstance(e.value, bool):
                return "(py_int (%d))" % e.value, "V", True
            reject(e, "unsupported constant")
        if isinstance(e, ast.UnaryOp) and isinstance(e.op, ast.USub) and isinstance(e.operand, ast.Constant) \
                and isinstance(e.operand.value, int) and not isinstance(e.operand.value, bool):
            return "(py_int (%d))" % (-e.operand.value), "V", True
        if isinstance(e, ast.Name):
            if e.id not in env:
                reject(e, "unknown name %s" % e.id)
            return e.id, env[e.id], True
        if isinstance(e, ast.Attribute):
            if isinstance(e.value, ast.Name) and env.get(e.value.id) == "S" and e.attr in ("start", "stop", "step"):
                return "(sl_%s %s)" % (e.attr, e.value.id), "V", True
            reject(e, "unsupported attribute")
        if isinstance(e, ast.BinOp):
            if type(e.op) not in self.ARITH:
                reject(e, "unsupported binary operator")
            f = self.ARITH[type(e.op)]
            return self.vals([e.left, e.right], env, ["V", "V"], lambda a: "(%s %s %s)" % (f, a[0], a[1])), "V", False
        if isinstance(e, ast.Compare):
            if len(e.ops) != 1:
                reject(e, "chained comparison")
            op, a, b = e.ops[0], e.left, e.comparators[0]
            if isinstance(op, (ast.Is, ast.IsNot)):
                if not (isinstance(b, ast.Constant) and b.value is None):
                    reject(e, "`is` only against None")
                t, ty, pure = self.expr(a, env)
                if ty != "V" or not pure:
                    reject(e, "`is None` of a non-value")
                s = "(is_none %s)" % t
                return (s if isinstance(op, ast.Is) else "(negb %s)" % s), "B", True
            if type(op) not in self.CMP:
                reject(e, "unsupported comparison")
            f = self.CMP[type(op)]
            return self.vals([a, b], env, ["V", "V"], lambda x: "(%s %s %s)" % (f, x[0], x[1])), "B", False
        if isinstance(e, ast.BoolOp):
            # short-circuit, left to right
            parts = [self.expr(v, env) for v in e.values]
            for (t, ty, pure), v in zip(parts, e.values):
                if ty != "B":
                    reject(v, "boolean operator on a non-boolean")
            is_and = isinstance(e.op, ast.And)

            def go(i):
                t, _, pure = parts[i]
                m = ("(PyOk %s)" % t) if pure else t
                if i == len(parts) - 1:
                    return m
                x = self.fresh()
                rest = go(i + 1)
                if is_and:
                    return "(py_bind %s (fun %s => if %s then %s else PyOk false))" % (m, x, x, rest)
                return "(py_bind %s (fun %s => if %s then PyOk true else %s))" % (m, x, x, rest)
            if all(p[2] for p in parts):
                f = "andb" if is_and else "orb"
                s = parts[0][0]
                for p in parts[1:]:
                    s = "(%s %s %s)" % (f, s, p[0])
                return s, "B", True
            return go(0), "B", False
        if isinstance(e, ast.Call):
            if e.keywords:
                reject(e, "keyword arguments not supported")
            fn = U(e.func)
            if fn == "copy.copy" and len(e.args) == 1:      # ints and None are immutable
                return self.expr(e.args[0], env)
            if fn == "range":
                if len(e.args) == 3 and not any(isinstance(a, ast.Starred) for a in e.args):
                    return self.vals(e.args, env, ["V"] * 3,
                                     lambda a: "(py_range %s %s %s)" % tuple(a)), "L", False
                if len(e.args) == 1 and isinstance(e.args[0], ast.Starred):
                    c = e.args[0].value
                    ok = (isinstance(c, ast.Call) and not c.keywords and len(c.args) == 1
                          and isinstance(c.func, ast.Attribute) and c.func.attr == "indices"
                          and isinstance(c.func.value, ast.Name) and env.get(c.func.value.id) == "S")
                    if not ok:
                        reject(e, "range(*x) only for x = <slice>.indices(n)")
                    sl = c.func.value.id
                    x = self.fresh()
                    return self.vals([c.args[0]], env, ["V"],
                                     lambda a: "(py_bind (py_slice_indices %s %s) (fun %s => PyOk (py_range3 %s)))"
                                     % (sl, a[0], x, x)), "L", False
            reject(e, "unsupported call")
        reject(e, "unsupported expression")

    def cond(self, e, env, then, els):
        t, ty, pure = self.expr(e, env)
        if ty != "B":
            reject(e, "condition is not a boolean")
        if pure:
            return "(if %s then %s else %s)" % (t, then, els)
        x = self.fresh()
        return "(py_bind %s (fun %s => if %s then %s else %s))" % (t, x, x, then, els)

    # -------------------------------------------------------------- statements
    @staticmethod
    def terminal(stmts):
        if not stmts:
            return False
        s = stmts[-1]
        if isinstance(s, (ast.Raise, ast.Return)):
            return True
        if isinstance(s, ast.If):
            return Dyn.terminal(s.body) and Dyn.terminal(s.orelse)
        return False

    @staticmethod
    def assigned(stmts):
        out = []
        for s in stmts:
            if isinstance(s, ast.Assign):
                if len(s.targets) != 1 or not isinstance(s.targets[0], ast.Name):
                    reject(s, "unsupported assignment target")
                out.append(s.targets[0].id)
            elif isinstance(s, ast.If):
                out += Dyn.assigned(s.body) + Dyn.assigned(s.orelse)
            elif isinstance(s, (ast.Raise, ast.Return, ast.Pass)):
                pass
            elif isinstance(s, ast.Expr) and isinstance(s.value, ast.Constant):
                pass
            else:
                reject(s, "unsupported statement")
        res = []
        for v in out:
            if v not in res:
                res.append(v)
        return res

    def block(self, stmts, env, outvars, ret):
        """outvars None: function level (must end in return/raise, returns `pyres <ret>`);
        else: a joined branch, ends with PyOk (outvars)."""
        env = dict(env)
        if not stmts:
            if outvars is None:
                raise_at = ast.Pass()
                reject(raise_at, "control falls off the end of the function")
            return "PyOk %s" % self.tup(outvars)
        s, rest = stmts[0], stmts[1:]
        if isinstance(s, ast.Pass) or (isinstance(s, ast.Expr) and isinstance(s.value, ast.Constant)):
            return self.block(rest, env, outvars, ret)
        if isinstance(s, ast.Raise):
            if rest:
                reject(s, "code after raise")
            return "PyRaise"
        if isinstance(s, ast.Return):
            if rest:
                reject(s, "code after return")
            if outvars is not None:
                reject(s, "return inside a branch that is joined")
            t, ty, pure = self.expr(s.value, env)
            if ty != ret:
                reject(s, "return of type %s where %s expected" % (ty, ret))
            return ("PyOk %s" % t) if pure else t
        if isinstance(s, ast.Assign):
            if len(s.targets) != 1 or not isinstance(s.targets[0], ast.Name):
                reject(s, "unsupported assignment target")
            x = s.targets[0].id
            t, ty, pure = self.expr(s.value, env)
            if x in env and env[x] != ty:
                reject(s, "variable %s changes type %s -> %s" % (x, env[x], ty))
            env[x] = ty
            k = self.block(rest, env, outvars, ret)
            if pure:
                return "let %s := %s in\n  %s" % (x, t, k)
            return "py_bind %s (fun %s =>\n  %s)" % (t, x, k)
        if isinstance(s, ast.If):
            if self.terminal(s.body) and not s.orelse:
                then = self.block(s.body, env, outvars, ret)
                els = self.block(rest, env, outvars, ret)
                return self.cond(s.test, env, "(%s)" % then, "\n  (%s)" % els)
            if self.terminal(s.body) or (s.orelse and self.terminal(s.orelse)):
                reject(s, "if with one exiting and one continuing branch and an else part")
            vs = self.assigned([s])
            if not vs:
                reject(s, "if without effect")
            for v in vs:
                if v not in env:
                    reject(s, "variable %s first assigned inside a branch" % v)
            b1 = self.block(s.body, env, vs, ret)
            b2 = self.block(s.orelse, env, vs, ret)
            joined = self.cond(s.test, env, "(%s)" % b1, "(%s)" % b2)
            pat = vs[0] if len(vs) == 1 else "'%s" % self.tup(vs)
            return "py_bind %s (fun %s =>\n  %s)" % (joined, pat, self.block(rest, env, outvars, ret))
        reject(s, "unsupported statement")

    @staticmethod
    def tup(vs):
        return vs[0] if len(vs) == 1 else "(%s)" % ", ".join(vs)


# ============================================================================ shape recognisers
def _args(fn, expected):
    a = [x.arg for x in fn.args.args]
    if a != expected or fn.args.vararg or fn.args.kwarg or fn.args.kwonlyargs:
        reject(fn, "unexpected signature %s" % a)


def _defaults(fn, expected):
    got = [U(d) for d in fn.args.defaults]
    if got != expected:
        reject(fn, "unexpected defaults %s" % got)


def _fixed(s, text):
    if U(s) != U(ast.parse(text).body[0]):
        reject(s, "expected `%s`" % text.splitlines()[0])


def _subst(node, table):
    """replace sub-expressions (by their source text) with scalar stand-in names."""
    class Sub(ast.NodeTransformer):
        def visit(self, n):
            if isinstance(n, ast.expr) and U(n) in table:
                return ast.copy_location(ast.Name(id=table[U(n)], ctx=ast.Load()), n)
            return super().visit(n)
    import copy
    return Sub().visit(copy.deepcopy(node))


def _where0(s, target):
    """`target = np.where(<test>)[0]` -> <test>"""
    ok = (isinstance(s, ast.Assign) and len(s.targets) == 1 and U(s.targets[0]) == target
          and isinstance(s.value, ast.Subscript) and U(s.value.slice) == "0"
          and isinstance(s.value.value, ast.Call) and U(s.value.value.func) == "np.where"
          and len(s.value.value.args) == 1 and not s.value.value.keywords)
    if not ok:
        reject(s, "expected %s = np.where(<test>)[0]" % target)
    return s.value.value.args[0]


def _sum_raise(s, exc="IndexError()"):
    """`if (<test>).sum() > 0: raise IndexError()` -> <test>"""
    ok = (isinstance(s, ast.If) and not s.orelse and len(s.body) == 1 and isinstance(s.body[0], ast.Raise)
          and U(s.body[0].exc) == exc and s.body[0].cause is None
          and isinstance(s.test, ast.Compare) and len(s.test.ops) == 1 and isinstance(s.test.ops[0], ast.Gt)
          and U(s.test.comparators[0]) == "0" and isinstance(s.test.left, ast.Call)
          and not s.test.left.args and not s.test.left.keywords
          and isinstance(s.test.left.func, ast.Attribute) and s.test.left.func.attr == "sum")
    if not ok:
        reject(s, "expected `if (<test>).sum() > 0: raise %s`" % exc)
    return s.test.left.func.value


def _aug(s, target):
    """`target += <e>` -> the scalar expression `<elem> + <e>` as an ast (op kept as written)"""
    if not (isinstance(s, ast.AugAssign) and U(s.target) == target):
        reject(s, "expected `%s <op>= ...`" % target)
    return s.op, s.value


def _if_else(s, test):
    if not (isinstance(s, ast.If) and U(s.test) == test and s.orelse):
        reject(s, "expected `if %s: ... else: ...`" % test)
    return s.body, s.orelse


def _one(stmts, node):
    if len(stmts) != 1:
        reject(node, "expected a single statement")
    return stmts[0]


class VecStarts:
    """np.append([c..], np.cumsum(lengths)[:-1])-style vector expressions -> list Z terms"""
    def expr(self, e):
        if isinstance(e, ast.Call) and not e.keywords:
            fn = U(e.func)
            if fn == "np.append" and len(e.args) == 2:
                return "(app %s %s)" % (self.expr(e.args[0]), self.expr(e.args[1]))
            if fn == "np.cumsum" and len(e.args) == 1:
                return "(np_cumsum %s)" % self.expr(e.args[0])
            reject(e, "unsupported vector call")
        if isinstance(e, ast.List):
            items = []
            for x in e.elts:
                if not (isinstance(x, ast.Constant) and isinstance(x.value, int) and not isinstance(x.value, bool)):
                    reject(e, "list of non-integer constants")
                items.append("(%d)" % x.value)
            return "[%s]" % "; ".join(items)
        if isinstance(e, ast.Subscript) and isinstance(e.slice, ast.Slice):
            sl = e.slice
            v = self.expr(e.value)
            lo, hi, st = (None if x is None else U(x) for x in (sl.lower, sl.upper, sl.step))
            if (lo, hi, st) == (None, "-1", None):
                return "(removelast %s)" % v
            if (lo, hi, st) == ("1", None, None):
                return "(tl %s)" % v
            reject(e, "unsupported vector slice")
        if U(e) in ("lengths", "self.lengths"):
            return "lengths"
        reject(e, "unsupported vector expression")


# ============================================================================ the translation
def translate(repo):
    tree, _ = parse_file(repo, REL)
    tr = Tr()
    out = ["(* GENERATED by translator/tr_ragged.py from %s -- do not edit *)" % REL,
           "From Coq Require Import List ZArith Bool.", "From EV Require Import PySlice RaBase.",
           "Import ListNotations.", "Open Scope Z_scope.", ""]

    # ------------------------------------------------------------ _slice_to_list (whole body)
    fn = find_func(tree, "_slice_to_list", REL)
    _args(fn, ["slice_func", "length"])
    _defaults(fn, ["None"])
    body = Dyn().block(strip_doc(fn.body), {"slice_func": "S", "length": "V"}, None, "L")
    out.append("Definition gen_slice_to_list (slice_func : pyslice) (length : pyv) : pyres (list Z) :=\n  %s.\n" % body)

    # ------------------------------------------------------------ starts (three copies must agree)
    vs = VecStarts()
    fn = find_func(tree, "starts", REL, cls="RaggedArray")
    if [U(d) for d in fn.decorator_list] != ["property"]:
        reject(fn, "starts is not a property")
    b = strip_doc(fn.body)
    if not (len(b) == 1 and isinstance(b[0], ast.Return)):
        reject(fn, "unexpected shape of RaggedArray.starts")
    starts_term = vs.expr(b[0].value)

    def fallback_starts(s):
        ok = (isinstance(s, ast.If) and U(s.test) == "starts is None" and not s.orelse and len(s.body) == 1
              and isinstance(s.body[0], ast.Assign) and U(s.body[0].targets[0]) == "starts")
        if not ok:
            reject(s, "expected `if starts is None: starts = ...`")
        if vs.expr(s.body[0].value) != starts_term:
            reject(s, "starts fall-back differs from RaggedArray.starts")

    out.append("Definition gen_starts (lengths : list Z) : list Z := %s.\n" % starts_term)

    # ------------------------------------------------------------ _handle_negative_indices
    fn = find_func(tree, "_handle_negative_indices", REL)
    _args(fn, ["first_dimension", "second_dimension", "lengths", "starts"])
    _defaults(fn, ["None", "None"])
    b = strip_doc(fn.body)
    if len(b) != 9:
        reject(fn, "_handle_negative_indices: expected 9 statements, got %d" % len(b))
    _fixed(b[0], "if type(first_dimension) is not np.ndarray:\n    first_dimension = np.array(first_dimension)")
    _fixed(b[1], "if type(second_dimension) is not np.ndarray:\n    second_dimension = np.array(second_dimension)")
    _fixed(b[2], "if np.ndim(first_dimension)==0:\n    first_dimension = first_dimension.reshape(-1)")
    _fixed(b[3], "if np.ndim(second_dimension)==0:\n    second_dimension = second_dimension.reshape(-1)")
    row_neg = tr.expr(_where0(b[4], "first_dimension_neg_iis"), {"first_dimension": "Z"}, "B")[0]
    col_neg = tr.expr(_where0(b[5], "second_dimension_neg_iis"), {"second_dimension": "Z"}, "B")[0]
    # rows
    s = b[6]
    if not (isinstance(s, ast.If) and U(s.test) == "len(first_dimension_neg_iis) > 0" and not s.orelse
            and len(s.body) == 2):
        reject(s, "expected `if len(first_dimension_neg_iis) > 0:` with two statements")
    t_body, e_body = _if_else(s.body[0], "first_dimension.size > 1")
    wraps = []
    for st, target in ((_one(t_body, s), "first_dimension[first_dimension_neg_iis]"),
                       (_one(e_body, s), "first_dimension")):
        op, val = _aug(st, target)
        e = ast.BinOp(left=ast.Name(id="first_dimension", ctx=ast.Load()), op=op,
                      right=_subst(val, {"len(starts)": "n_rows"}))
        wraps.append(tr.expr(ast.fix_missing_locations(ast.copy_location(e, st)),
                             {"first_dimension": "Z", "n_rows": "Z"}, "Z")[0])
    if len(set(wraps)) != 1:
        reject(s, "the two row-wrap branches differ: %s" % wraps)
    row_wrap = wraps[0]
    row_bad = tr.expr(_sum_raise(s.body[1]), {"first_dimension": "Z"}, "B")[0]
    # columns
    s = b[7]
    if not (isinstance(s, ast.If) and U(s.test) == "len(second_dimension_neg_iis) > 0" and not s.orelse
            and len(s.body) == 3):
        reject(s, "expected `if len(second_dimension_neg_iis) > 0:` with three statements")
    g = s.body[0]
    if not (isinstance(g, ast.If) and U(g.test) == "lengths is None" and not g.orelse and len(g.body) == 1
            and isinstance(g.body[0], ast.Raise)):
        reject(g, "expected `if lengths is None: raise ...`")
    t_body, e_body = _if_else(s.body[1], "second_dimension.size > 1")
    tt_body, te_body = _if_else(_one(t_body, s), "first_dimension.size > 1")
    row_len = {"lengths[first_dimension[second_dimension_neg_iis]]": "row_len", "lengths[first_dimension]": "row_len"}
    wraps = []
    for st, target, key in ((_one(tt_body, s), "second_dimension[second_dimension_neg_iis]",
                             "lengths[first_dimension[second_dimension_neg_iis]]"),
                            (_one(te_body, s), "second_dimension[second_dimension_neg_iis]", "lengths[first_dimension]"),
                            (_one(e_body, s), "second_dimension", "lengths[first_dimension]")):
        op, val = _aug(st, target)
        e = ast.BinOp(left=ast.Name(id="second_dimension", ctx=ast.Load()), op=op,
                      right=_subst(val, {key: "row_len"}))
        wraps.append(tr.expr(ast.fix_missing_locations(ast.copy_location(e, st)),
                             {"second_dimension": "Z", "row_len": "Z"}, "Z")[0])
    if len(set(wraps)) != 1:
        reject(s, "the three column-wrap branches differ: %s" % wraps)
    col_wrap = wraps[0]
    col_bad = tr.expr(_sum_raise(s.body[2]), {"second_dimension": "Z"}, "B")[0]
    _fixed(b[8], "return first_dimension, second_dimension")
    out.append("Definition gen_hn_row_neg (first_dimension : Z) : bool := %s.\n" % row_neg)
    out.append("Definition gen_hn_row_wrap (first_dimension n_rows : Z) : Z := %s.\n" % row_wrap)
    out.append("Definition gen_hn_row_bad (first_dimension : Z) : bool := %s.\n" % row_bad)
    out.append("Definition gen_hn_col_neg (second_dimension : Z) : bool := %s.\n" % col_neg)
    out.append("Definition gen_hn_col_wrap (second_dimension row_len : Z) : Z := %s.\n" % col_wrap)
    out.append("Definition gen_hn_col_bad (second_dimension : Z) : bool := %s.\n" % col_bad)

    # ------------------------------------------------------------ _convert_from_2d
    fn = find_func(tree, "_convert_from_2d", REL)
    _args(fn, ["iis_ragged", "lengths", "starts", "error_check"])
    _defaults(fn, ["None", "None", "True"])
    b = strip_doc(fn.body)
    if len(b) != 10:
        reject(fn, "_convert_from_2d: expected 10 statements, got %d" % len(b))
    if not (isinstance(b[0], ast.If) and U(b[0].test) == "lengths is None and starts is None" and not b[0].orelse
            and len(b[0].body) == 1 and isinstance(b[0].body[0], ast.Raise)):
        reject(b[0], "expected the missing-arguments guard")
    fallback_starts(b[1])
    _fixed(b[2], "first_dimension, second_dimension = iis_ragged")
    # the index vectors enter as new arrays of platform integers (_index_array, pinned below: the model works over
    # Z, an index dtype in which the arithmetic below could wrap never reaches it) ...
    _fixed(b[3], "first_dimension = _index_array(first_dimension)")
    _fixed(b[4], "second_dimension = _index_array(second_dimension)")
    # ... and are paired by NumPy broadcasting; the copies are what the in-place `+=` of
    # _handle_negative_indices writes to (np_broadcast_pairs of Base/RaBase.v)
    _fixed(b[5], "first_dimension, second_dimension = [np.array(dimension) for dimension in "
                 "np.broadcast_arrays(first_dimension, second_dimension)]")
    _fixed(b[6], "first_dimension, second_dimension = _handle_negative_indices(\n"
                 "    first_dimension, second_dimension, lengths=lengths, starts=starts)")
    s = b[7]
    ok = (isinstance(s, ast.If) and U(s.test) == "lengths is not None and error_check" and not s.orelse
          and len(s.body) == 1 and isinstance(s.body[0], ast.If) and not s.body[0].orelse
          and len(s.body[0].body) == 1 and isinstance(s.body[0].body[0], ast.Raise)
          and isinstance(s.body[0].body[0].exc, ast.Call) and U(s.body[0].body[0].exc.func) == "IndexError"
          and isinstance(s.body[0].test, ast.Call) and U(s.body[0].test.func) == "np.any"
          and len(s.body[0].test.args) == 1 and not s.body[0].test.keywords)
    if not ok:
        reject(s, "expected `if lengths is not None and error_check: if np.any(<test>): raise IndexError(...)`")
    oob = tr.expr(_subst(s.body[0].test.args[0], {"lengths[first_dimension]": "row_len"}),
                  {"row_len": "Z", "second_dimension": "Z"}, "B")[0]
    s = b[8]
    if not (isinstance(s, ast.Assign) and len(s.targets) == 1 and U(s.targets[0]) == "iis_flat"):
        reject(s, "expected iis_flat = ...")
    flat = tr.expr(_subst(s.value, {"starts[first_dimension]": "row_start"}),
                   {"row_start": "Z", "second_dimension": "Z"}, "Z")[0]
    _fixed(b[9], "return (iis_flat,)")
    out.append("Definition gen_c2_pairs (first_dimension second_dimension : list Z) : option (list (Z * Z)) :=\n"
               "  np_broadcast_pairs first_dimension second_dimension.\n")
    out.append("Definition gen_c2_oob (row_len second_dimension : Z) : bool := %s.\n" % oob)
    out.append("Definition gen_c2_flat (row_start second_dimension : Z) : Z := %s.\n" % flat)
    out.append("Definition gen_conv2d (lengths starts : list Z) (r c : Z) : option Z :=\n"
               "  conv2d_skel gen_hn_row_neg gen_hn_row_wrap gen_hn_row_bad gen_hn_col_neg gen_hn_col_wrap gen_hn_col_bad\n"
               "    gen_c2_oob gen_c2_flat lengths starts r c.\n")

    # ------------------------------------------------------------ _index_array (pinned text)
    fn = find_func(tree, "_index_array", REL)
    _args(fn, ["indices"])
    b = strip_doc(fn.body)
    expect = ["indices = np.array(indices)",
              "if indices.dtype.kind in 'iu':\n    indices = indices.astype(int)",
              "return indices"]
    if len(b) != len(expect):
        reject(fn, "_index_array: expected %d statements" % len(expect))
    for st, text in zip(b, expect):
        _fixed(st, text)

    # ------------------------------------------------------------ _convert_from_1d, where
    fn = find_func(tree, "_convert_from_1d", REL)
    _args(fn, ["iis_flat", "lengths", "starts"])
    _defaults(fn, ["None", "None"])
    b = strip_doc(fn.body)
    if len(b) != 6:
        reject(fn, "_convert_from_1d: expected 6 statements, got %d" % len(b))
    if not (isinstance(b[0], ast.If) and U(b[0].test) == "lengths is None and starts is None" and not b[0].orelse
            and len(b[0].body) == 1 and isinstance(b[0].body[0], ast.Raise)):
        reject(b[0], "expected the missing-arguments guard")
    fallback_starts(b[1])
    _fixed(b[2], "iis_flat = iis_flat[0]")
    s = b[3]
    v = s.value if isinstance(s, ast.Assign) else None
    ok = (v is not None and U(s.targets[0]) == "first_dimension" and isinstance(v, ast.ListComp)
          and len(v.generators) == 1 and U(v.generators[0].target) == "ii" and U(v.generators[0].iter) == "iis_flat"
          and not v.generators[0].ifs and not v.generators[0].is_async
          and isinstance(v.elt, ast.Subscript) and U(v.elt.slice) == "-1"
          and isinstance(v.elt.value, ast.Subscript) and U(v.elt.value.slice) == "0"
          and isinstance(v.elt.value.value, ast.Call) and U(v.elt.value.value.func) == "np.where"
          and len(v.elt.value.value.args) == 1 and not v.elt.value.value.keywords)
    if not ok:
        reject(s, "expected first_dimension = [np.where(<test>)[0][-1] for ii in iis_flat]")
    c1_test = tr.expr(_subst(v.elt.value.value.args[0], {"starts": "row_start"}),
                      {"row_start": "Z", "ii": "Z"}, "B")[0]
    s = b[4]
    v = s.value if isinstance(s, ast.Assign) else None
    ok = (v is not None and U(s.targets[0]) == "second_dimension" and isinstance(v, ast.ListComp)
          and len(v.generators) == 1 and U(v.generators[0].target) == "num"
          and U(v.generators[0].iter) == "range(len(iis_flat))" and not v.generators[0].ifs
          and not v.generators[0].is_async)
    if not ok:
        reject(s, "expected second_dimension = [<expr> for num in range(len(iis_flat))]")
    c1_col = tr.expr(_subst(v.elt, {"iis_flat[num]": "ii", "starts[first_dimension[num]]": "row_start"}),
                     {"ii": "Z", "row_start": "Z"}, "Z")[0]
    _fixed(b[5], "return (np.array(first_dimension, dtype=int),\n        np.array(second_dimension, dtype=int))")
    out.append("Definition gen_c1_test (row_start ii : Z) : bool := %s.\n" % c1_test)
    out.append("Definition gen_c1_col (ii row_start : Z) : Z := %s.\n" % c1_col)
    out.append("Definition gen_conv1d (starts : list Z) (ii : Z) : option (Z * Z) :=\n"
               "  conv1d_skel gen_c1_test gen_c1_col starts ii.\n")

    fn = find_func(tree, "where", REL)
    _args(fn, ["mask"])
    b = strip_doc(fn.body)
    _fixed(_one(b, fn), "try:\n    iis_flat = np.where(mask._data)\n"
                        "    return _convert_from_1d(iis_flat, starts=mask.starts)\n"
                        "except AttributeError:\n    return np.where(mask)")

    # ------------------------------------------------------------ pair generators (pinned text)
    fn = find_func(tree, "_get_iis_from_slices", REL)
    _args(fn, ["first_dimension_iis", "second_dimension", "lengths"])
    b = strip_doc(fn.body)
    expect = ["first_dimension_iis = np.array(first_dimension_iis, dtype=int).reshape(-1)",
              "iis_2d = [np.arange(*second_dimension.indices(lengths[num]), dtype=int) for num in first_dimension_iis]",
              "iis_2d_lengths = np.array([len(i) for i in iis_2d], dtype=int)",
              "iis_1d = np.repeat(first_dimension_iis, iis_2d_lengths)",
              "iis_2d = np.concatenate(iis_2d + [np.array([], dtype=int)])",
              "return (iis_1d, iis_2d), iis_2d_lengths"]
    if len(b) != len(expect):
        reject(fn, "_get_iis_from_slices: expected %d statements" % len(expect))
    for s, text in zip(b, expect):
        _fixed(s, text)
    out.append("Definition gen_iis_from_slices (lengths rows : list Z) (second_dimension : pyslice)\n"
               "  : option (list (Z * Z) * list nat) := iis_from_slices_skel lengths rows second_dimension.\n")
    fn = find_func(tree, "_get_iis_from_list", REL)
    _args(fn, ["first_dimension", "second_dimension"])
    b = strip_doc(fn.body)
    expect = ["iis = np.array(list(itertools.product(first_dimension, second_dimension)), dtype=int).reshape(-1, 2).T",
              "new_lengths = list(itertools.repeat(len(second_dimension), len(first_dimension)))",
              "return iis, new_lengths"]
    if len(b) != len(expect):
        reject(fn, "_get_iis_from_list: expected %d statements" % len(expect))
    for s, text in zip(b, expect):
        _fixed(s, text)
    out.append("Definition gen_iis_from_list (first_dimension second_dimension : list Z) : list (Z * Z) * list nat :=\n"
               "  iis_from_list_skel first_dimension second_dimension.\n")

    # ------------------------------------------------------------ call sites in __getitem__
    fn = find_func(tree, "__getitem__", REL, cls="RaggedArray")
    want = {"_slice_to_list": {"_slice_to_list(first_dimension, length=len(self.lengths))"},
            "_convert_from_2d": {"_convert_from_2d(iis, lengths=self.lengths, starts=self.starts)"},
            "_get_iis_from_slices": {"_get_iis_from_slices(first_dimension_iis, second_dimension, self.lengths)",
                                     "_get_iis_from_slices(first_dimension, second_dimension, self.lengths)"},
            "_get_iis_from_list": {"_get_iis_from_list(first_dimension_iis, [second_dimension])",
                                   "_get_iis_from_list(first_dimension_iis, second_dimension)"},
            "where": {"where(iis)"}}
    seen = {k: set() for k in want}
    for n in ast.walk(fn):
        if isinstance(n, ast.Call) and isinstance(n.func, ast.Name) and n.func.id in want:
            if U(n) not in want[n.func.id]:
                reject(n, "unexpected call in __getitem__")
            seen[n.func.id].add(U(n))
    for k in want:
        if seen[k] != want[k]:
            reject(fn, "__getitem__: calls of %s are %s, expected %s" % (k, sorted(seen[k]), sorted(want[k])))
    return {"Gen/RaGen.v": "\n".join(out)}


if __name__ == "__main__":
    import sys
    repo = sys.argv[1] if len(sys.argv) > 1 else "/repo"
    for rel, text in translate(repo).items():
        if len(sys.argv) > 2:
            with open(sys.argv[2], "w") as f:
                f.write(text)
        else:
            print(text)
