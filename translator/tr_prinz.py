"""enspara/msm/builders.py:_prinz_mle_py and enspara/msm/libmsm.pyx:_mle_prinz_dense
  ->  Gen/PrinzGen.v

The two inner loop bodies of the Prinz iteration (the diagonal update and the pairwise update with
the running row sums) are translated, for BOTH implementations, into Gallina functions of the
scalars they read, over an abstract number type `K` with operations `o : Ops K`
(Model/Prinz.v; instantiated at Q for the executable model and at R for the theorems).  Array
accesses are renamed to scalars: X[i, j] -> X_ij, C[j, i] -> C_ji, X_rs[i] -> Xrs_i, ...; stores to
array elements become let-bindings of the same names, and the function returns the stored values.
The loop nest itself (for n_iter / for i / for i, j>i), the initialisation, the guards and the final
normalisation are recognised statement by statement and must have exactly the shape that the
skeleton `sweep` / `prinz_run` of Model/Prinz.v implements.  Round 2: the `logl +=` terms at the end of
both loop bodies and the test of the convergence `if` are translated too (`*_diag_logl`, `*_offdiag_logl`,
`*_continue`, over `Ops` + `LOps`: np.log -> klog, C's log10 -> klog10, abs -> kabs); the shape
`logl = 0` / `if <test>: oldlogl = logl else: break` / `if n_iter == max_iter - 1: warnings.warn(` is
recognised and is what `prinz_loop` / `prinz_run_stop` of Model/Prinz.v implement.  Anything else raises
TranslatorReject.

The .pyx is made parseable by removing `cimport` lines and the `cdef extern` block, turning
`cdef <type> a, b = e` into `b = e` (declarations without initialiser vanish) and dropping the C types
of the function's parameters.
"""
import ast, os, re
from pyast import reject, strip_doc, find_func
from core import TranslatorReject

PY_REL = "enspara/msm/builders.py"
PYX_REL = "enspara/msm/libmsm.pyx"


# ----------------------------------------------------------------------------- .pyx -> python text
def _split_top(s):
    parts, depth, cur = [], 0, ""
    for ch in s:
        if ch in "([{":
            depth += 1
        elif ch in ")]}":
            depth -= 1
        if ch == "," and depth == 0:
            parts.append(cur)
            cur = ""
        else:
            cur += ch
    parts.append(cur)
    return parts


_CTYPE = r"(?:[A-Za-z_][\w.]*(?:\[[^\]]*\])?)"


def pyx_to_python(src):
    lines = src.split("\n")
    out = []
    i = 0
    while i < len(lines):
        ln = lines[i]
        st = ln.strip()
        if st.startswith("cimport ") or re.match(r"from\s+\S+\s+cimport\b", st):
            out.append("")
            i += 1
            continue
        if re.match(r"cdef\s+extern\b", st):
            ind = len(ln) - len(ln.lstrip())
            out.append("")
            i += 1
            while i < len(lines) and (lines[i].strip() == "" or len(lines[i]) - len(lines[i].lstrip()) > ind):
                out.append("")
                i += 1
            continue
        m = re.match(r"(\s*)cdef\s+(" + _CTYPE + r")\s+(.*)$", ln)
        if m:
            ind, _, decl = m.groups()
            stmts = []
            for d in _split_top(decl):
                if "=" in d:
                    name, val = d.split("=", 1)
                    if not re.match(r"^\s*[A-Za-z_]\w*\s*$", name):
                        raise TranslatorReject("%s line %d: unsupported cdef declarator %r" % (PYX_REL, i + 1, d))
                    stmts.append("%s = %s" % (name.strip(), val.strip()))
                elif not re.match(r"^\s*[A-Za-z_]\w*\s*$", d):
                    raise TranslatorReject("%s line %d: unsupported cdef declarator %r" % (PYX_REL, i + 1, d))
            out.append(ind + ("; ".join(stmts) if stmts else "pass"))
            i += 1
            continue
        if st.startswith("cdef ") or st.startswith("cpdef "):
            raise TranslatorReject("%s line %d: unsupported cdef form %r" % (PYX_REL, i + 1, st))
        out.append(ln)
        i += 1
    txt = "\n".join(out)

    # typed parameters of `def name(<ctype> a, <ctype> b=..)`
    def fix_sig(m):
        args = []
        for a in _split_top(m.group(2)):
            a = a.strip()
            if not a:
                continue
            mm = re.match(r"^(?:" + _CTYPE + r"\s+)?([A-Za-z_]\w*)\s*(=.*)?$", a, flags=re.S)
            if not mm:
                raise TranslatorReject("%s: unsupported parameter %r" % (PYX_REL, a))
            args.append(mm.group(1) + (mm.group(2) or ""))
        return "def %s(%s):" % (m.group(1), ", ".join(args))
    txt = re.sub(r"def\s+(\w+)\s*\(((?:[^()]|\([^()]*\))*)\)\s*:", fix_sig, txt)
    return txt


# ----------------------------------------------------------------------------- expressions over Ops
ARR2 = {"X": "X", "C": "C"}
ARR1 = {"X_rs": "Xrs", "C_rs": "Crs"}


def _sub_name(e, idx_ok):
    """Subscript node -> scalar name, or reject."""
    if not isinstance(e.value, ast.Name):
        reject(e, "subscript of a non-name")
    a = e.value.id
    sl = e.slice
    if a in ARR2:
        if not (isinstance(sl, ast.Tuple) and len(sl.elts) == 2 and all(isinstance(x, ast.Name) for x in sl.elts)):
            reject(e, "matrix access must be A[p, q] with loop variables p, q")
        p, q = sl.elts[0].id, sl.elts[1].id
        if (p, q) not in idx_ok:
            reject(e, "index pair (%s, %s) not allowed here" % (p, q))
        return "%s_%s%s" % (ARR2[a], p, q)
    if a in ARR1:
        if not isinstance(sl, ast.Name) or (sl.id,) not in idx_ok:
            reject(e, "vector access must be v[p] with a loop variable p")
        return "%s_%s" % (ARR1[a], sl.id)
    reject(e, "subscript of unknown array %s" % a)


class Ex:
    def __init__(self, idx_ok, sqrt_names, extra_calls=None):
        self.idx_ok = idx_ok
        self.sqrt_names = sqrt_names
        self.extra_calls = extra_calls or {}      # call text -> LOps field (only in logl / convergence test)

    def num(self, e, env):
        if isinstance(e, ast.Constant):
            if isinstance(e.value, bool) or not isinstance(e.value, int):
                reject(e, "only integer constants are expected in the update formulas")
            return "(kofZ o (%d)%%Z)" % e.value
        if isinstance(e, ast.Name):
            if e.id not in env:
                reject(e, "unknown name %s" % e.id)
            return e.id
        if isinstance(e, ast.Subscript):
            n = _sub_name(e, self.idx_ok)
            if n not in env:
                reject(e, "array element %s is not available here" % n)
            return n
        if isinstance(e, ast.UnaryOp) and isinstance(e.op, ast.USub):
            return "(kopp o %s)" % self.num(e.operand, env)
        if isinstance(e, ast.BinOp):
            if isinstance(e.op, ast.Pow):
                if not (isinstance(e.right, ast.Constant) and e.right.value == 2 and isinstance(e.right.value, int)):
                    reject(e, "only x**2 is supported")
                b = self.num(e.left, env)
                return "(kmul o %s %s)" % (b, b)
            ops = {ast.Add: "kadd", ast.Sub: "ksub", ast.Mult: "kmul", ast.Div: "kdiv"}
            if type(e.op) not in ops:
                reject(e, "unsupported operator")
            return "(%s o %s %s)" % (ops[type(e.op)], self.num(e.left, env), self.num(e.right, env))
        if isinstance(e, ast.Call):
            fn = ast.unparse(e.func)
            if e.keywords or len(e.args) != 1:
                reject(e, "unsupported call")
            if fn in self.extra_calls:
                return "(%s lo %s)" % (self.extra_calls[fn], self.num(e.args[0], env))
            if fn not in self.sqrt_names:
                reject(e, "unsupported call (only the square root is expected)")
            return "(ksqrt o %s)" % self.num(e.args[0], env)
        reject(e, "unsupported expression")

    def test(self, e, env):
        if not (isinstance(e, ast.Compare) and len(e.ops) == 1):
            reject(e, "unsupported test")
        a, b = self.num(e.left, env), self.num(e.comparators[0], env)
        op = e.ops[0]
        if isinstance(op, ast.Gt):
            return "(kltb o %s %s)" % (b, a)
        if isinstance(op, ast.Lt):
            return "(kltb o %s %s)" % (a, b)
        if isinstance(op, ast.Eq):
            return "(keqb o %s %s)" % (a, b)
        reject(e, "unsupported comparison")

    def target(self, t):
        if isinstance(t, ast.Name):
            return t.id
        if isinstance(t, ast.Subscript):
            return _sub_name(t, self.idx_ok)
        reject(t, "unsupported assignment target")

    def one_assign(self, stmts, env):
        """A branch: exactly one simple assignment. -> (name, expr)"""
        if len(stmts) != 1 or not isinstance(stmts[0], ast.Assign) or len(stmts[0].targets) != 1:
            reject(stmts[0] if stmts else None, "a branch must be exactly one assignment")
        return self.target(stmts[0].targets[0]), self.num(stmts[0].value, env)

    def block(self, stmts, env, outs):
        """let-chain for the statements; closes with the tuple of `outs`."""
        env = set(env)
        lets = []
        for s in stmts:
            if isinstance(s, ast.Assign):
                if len(s.targets) != 1:
                    reject(s, "chained assignment")
                name = self.target(s.targets[0])
                lets.append("let %s := %s in" % (name, self.num(s.value, env)))
                env.add(name)
            elif isinstance(s, ast.If):
                cond = self.test(s.test, env)
                n1, e1 = self.one_assign(s.body, env)
                if s.orelse:
                    n2, e2 = self.one_assign(s.orelse, env)
                    if n1 != n2:
                        reject(s, "branches assign different variables")
                else:
                    if n1 not in env:
                        reject(s, "%s first assigned inside a one-armed if" % n1)
                    e2 = n1
                lets.append("let %s := (if %s then %s else %s) in" % (n1, cond, e1, e2))
                env.add(n1)
            else:
                reject(s, "unsupported statement in a loop body")
        for v in outs:
            if v not in env:
                reject(stmts[0], "value %s is never computed" % v)
        return "\n  ".join(lets) + "\n  (%s)" % ", ".join(outs)


# ----------------------------------------------------------------------------- shape recognition
def _is_logl_update(s):
    """`if (X[..] > 0): logl += <anything>` -- the pseudo log-likelihood of the convergence test."""
    return (isinstance(s, ast.If) and not s.orelse and len(s.body) == 1 and isinstance(s.body[0], ast.AugAssign)
            and isinstance(s.body[0].op, ast.Add) and isinstance(s.body[0].target, ast.Name)
            and s.body[0].target.id == "logl"
            and isinstance(s.test, ast.Compare) and len(s.test.ops) == 1 and isinstance(s.test.ops[0], ast.Gt)
            and isinstance(s.test.left, ast.Subscript) and ast.unparse(s.test.left.value) == "X"
            and ast.unparse(s.test.comparators[0]) == "0")


def _u(s):
    return ast.unparse(s)


def _logl_term(s, ex, env):
    """`if (X[..] > 0): logl += e`  ->  `(if test then e else 0)` over Ops + LOps."""
    return "(if %s then %s else (kofZ o (0)%%Z))" % (ex.test(s.test, env), ex.num(s.body[0].value, env))


def _expect(cond, node, why):
    if not cond:
        reject(node, why)


def _for_range(s, var, rng_texts):
    return (isinstance(s, ast.For) and not s.orelse and isinstance(s.target, ast.Name) and s.target.id == var
            and _u(s.iter) in rng_texts)


def _function(fn, rel, nvar, sqrt_names, prefix, log_calls):
    """Recognise the whole function; return the two translated bodies."""
    b = strip_doc(fn.body)
    b = [s for s in b if not isinstance(s, ast.Pass)]
    texts = [_u(s) for s in b]
    n_expr = {"len(C)"} if nvar is None else {nvar}
    # -- prologue (order of the assertions / initialisations is immaterial; the set is fixed)
    allowed_pro = {"X = C + C.T", "X_rs = X.sum(axis=1)", "C_rs = C.sum(axis=1)", "assert np.all(X_rs > 0)",
                   "assert np.all(C_rs > 0)", "oldlogl = 0", "C = C.copy().astype(float)", "n_states = len(C)",
                   "n_iter = 0", "j = 0", "denom = 0"}
    required_pro = {"X = C + C.T", "X_rs = X.sum(axis=1)", "C_rs = C.sum(axis=1)", "assert np.all(X_rs > 0)",
                    "assert np.all(C_rs > 0)", "oldlogl = 0"}
    k = 0
    seen = set()
    while k < len(b) and not isinstance(b[k], ast.For):
        for part in texts[k].split("\n"):
            _expect(part in allowed_pro, b[k], "%s: unexpected statement before the iteration: %s" % (rel, part))
            seen.add(part)
        k += 1
    _expect(required_pro <= seen, fn, "%s: missing initialisation %s" % (rel, sorted(required_pro - seen)))
    if nvar is not None:
        _expect("n_states = len(C)" in seen, fn, "%s: n_states must be len(C)" % rel)
    _expect(texts.index("X = C + C.T") < texts.index("X_rs = X.sum(axis=1)"), fn, "X_rs must be computed from X")
    # -- the iteration
    _expect(k < len(b) and _for_range(b[k], "n_iter", {"range(max_iter)"}), fn, "%s: expected `for n_iter in range(max_iter)`" % rel)
    it = b[k].body
    _expect(len(it) == 4 and _u(it[0]) == "logl = 0", b[k], "%s: iteration body must be logl=0, two loops, convergence test" % rel)
    # diagonal loop
    d = it[1]
    _expect(_for_range(d, "i", {"range(%s)" % x for x in n_expr}), d, "%s: expected the diagonal loop over range(n)" % rel)
    dbody = list(d.body)
    _expect(dbody and _is_logl_update(dbody[-1]), d, "%s: diagonal loop must end with the logl accumulation" % rel)
    ex = Ex({("i", "i"), ("i",)}, sqrt_names)
    diag = ex.block(dbody[:-1], {"C_ii", "Crs_i", "Xrs_i", "X_ii"}, ["X_ii", "Xrs_i"])
    exl = Ex({("i", "i"), ("i",)}, set(), log_calls)
    diag_l = _logl_term(dbody[-1], exl, {"C_ii", "Crs_i", "Xrs_i", "X_ii"})
    # pair loops
    p = it[2]
    _expect(_for_range(p, "i", {"range(%s - 1)" % x for x in n_expr}), p, "%s: expected the outer pair loop over range(n - 1)" % rel)
    _expect(len(p.body) == 1 and _for_range(p.body[0], "j", {"range(i + 1, %s)" % x for x in n_expr}), p,
            "%s: expected the inner pair loop over range(i + 1, n)" % rel)
    obody = list(p.body[0].body)
    _expect(obody and _is_logl_update(obody[-1]), p, "%s: pair loop must end with the logl accumulation" % rel)
    ex = Ex({("i", "j"), ("j", "i"), ("i",), ("j",)}, sqrt_names)
    off = ex.block(obody[:-1], {"C_ij", "C_ji", "Crs_i", "Crs_j", "Xrs_i", "Xrs_j", "X_ij", "X_ji"},
                   ["X_ij", "X_ji", "Xrs_i", "Xrs_j"])
    exl = Ex({("i", "j"), ("j", "i"), ("i",), ("j",)}, set(), log_calls)
    off_l = _logl_term(obody[-1], exl, {"C_ij", "C_ji", "Crs_i", "Crs_j", "Xrs_i", "Xrs_j", "X_ij", "X_ji"})
    # convergence test: `if <test>: oldlogl = logl else: break`; the test itself is translated
    ct = it[3]
    _expect(isinstance(ct, ast.If) and [_u(x) for x in ct.body] == ["oldlogl = logl"]
            and len(ct.orelse) == 1 and isinstance(ct.orelse[0], ast.Break), ct,
            "%s: unexpected convergence test" % rel)
    cont = Ex(set(), set(), {"abs": "kabs"}).test(ct.test, {"tol", "logl", "oldlogl"})
    # -- epilogue
    ep = b[k + 1:]
    et = [_u(s) for s in ep]
    _expect(len(ep) >= 4 and et[0].startswith("if n_iter == max_iter - 1:\n    warnings.warn("), fn,
            "%s: expected the non-convergence warning after the loop" % rel)
    _expect(et[1] == "T = X / X.sum(axis=-1).reshape(len(X), 1)", ep[1], "%s: unexpected normalisation of T" % rel)
    _expect(et[2] in ("pi = X_rs / X_rs.sum()[..., None]", "pi = X_rs / X_rs.sum()"), ep[2], "%s: unexpected normalisation of pi" % rel)
    _expect(all(isinstance(s, ast.Assert) for s in ep[3:-1]) and et[-1] == "return (T, pi)", fn,
            "%s: expected final sanity assertions and `return T, pi`" % rel)
    sig = {
        "diag": "Definition %s_diag {K : Type} (o : Ops K) (C_ii Crs_i Xrs_i X_ii : K) : K * K :=" % prefix,
        "off": "Definition %s_offdiag {K : Type} (o : Ops K) (C_ij C_ji Crs_i Crs_j Xrs_i Xrs_j X_ij X_ji : K) : K * K * K * K :=" % prefix,
    }
    stop = ["(* the `logl +=` term of the diagonal loop of %s, on the values just stored *)" % rel,
            "Definition %s_diag_logl {K : Type} (o : Ops K) (lo : LOps K) (C_ii Crs_i Xrs_i X_ii : K) : K :=" % prefix,
            "  " + diag_l + ".", "",
            "(* the `logl +=` term of the pair loop of %s, on the values just stored *)" % rel,
            "Definition %s_offdiag_logl {K : Type} (o : Ops K) (lo : LOps K) (C_ij C_ji Crs_i Crs_j Xrs_i Xrs_j X_ij X_ji : K) : K :=" % prefix,
            "  " + off_l + ".", "",
            "(* the convergence test of %s: continue (`oldlogl = logl`) when true, `break` when false *)" % rel,
            "Definition %s_continue {K : Type} (o : Ops K) (lo : LOps K) (tol logl oldlogl : K) : bool :=" % prefix,
            "  " + cont + ".", ""]
    return (["(* diagonal update: `for i in range(n)` body of %s *)" % rel, sig["diag"], "  " + diag + ".", "",
             "(* pairwise update: `for i .. for j in range(i+1, n)` body of %s *)" % rel, sig["off"], "  " + off + ".", ""],
            stop)


def translate(repo):
    out = ["(* GENERATED by translator/tr_prinz.py from %s and %s -- do not edit *)" % (PY_REL, PYX_REL),
           "From Coq Require Import ZArith.", "From EV Require Import Prinz.", ""]
    # ---- pure Python
    try:
        with open(os.path.join(repo, PY_REL)) as f:
            tree = ast.parse(f.read())
    except (OSError, SyntaxError) as ex:
        raise TranslatorReject("%s: cannot parse: %s" % (PY_REL, ex))
    fn = find_func(tree, "_prinz_mle_py", PY_REL)
    a = [x.arg for x in fn.args.args]
    if a != ["C", "tol", "max_iter"]:
        reject(fn, "unexpected signature %s" % a)
    upd, stop_py = _function(fn, PY_REL, None, {"np.sqrt"}, "py", {"np.log": "klog"})
    out += upd
    # ---- Cython
    try:
        with open(os.path.join(repo, PYX_REL)) as f:
            src = f.read()
    except OSError as ex:
        raise TranslatorReject("%s: cannot read: %s" % (PYX_REL, ex))
    if not re.search(r"cdef\s+extern\s+from\s+\"math.h\"[^\n]*:\s*\n\s+double\s+sqrt\(double x\)", src):
        raise TranslatorReject("%s: `sqrt` is not C's double sqrt(double)" % PYX_REL)
    try:
        tree = ast.parse(pyx_to_python(src))
    except SyntaxError as ex:
        raise TranslatorReject("%s: cannot parse after removing cdef declarations: %s" % (PYX_REL, ex))
    fn = find_func(tree, "_mle_prinz_dense", PYX_REL)
    a = [x.arg for x in fn.args.args]
    if a != ["C", "tol", "max_iter"]:
        reject(fn, "unexpected signature %s" % a)
    if not re.search(r"cdef\s+extern\s+from\s+\"math.h\"[^\n]*:\s*\n(?:\s+double\s+\w+\(double x\)\s*\n)*\s+double\s+log10\(double x\)", src):
        raise TranslatorReject("%s: `log10` is not C's double log10(double)" % PYX_REL)
    upd, stop_pyx = _function(fn, PYX_REL, "n_states", {"sqrt"}, "pyx", {"log10": "klog10"})
    out += upd
    out += ["(* the iteration with the translated updates plugged into the skeleton of Model/Prinz.v *)",
            "Definition py_sweep {K : Type} (o : Ops K) := sweep (py_diag o) (py_offdiag o).",
            "Definition pyx_sweep {K : Type} (o : Ops K) := sweep (pyx_diag o) (pyx_offdiag o).", ""]
    out += ["(* ---- the stopping rule: pseudo log-likelihood terms and convergence test *)"] + stop_py + stop_pyx
    out += ["(* the whole function (guards, loop with stopping rule and iteration cap, normalisation, warning flag) *)",
            "Definition py_run_stop {K : Type} (o : Ops K) (lo : LOps K) :=",
            "  prinz_run_stop o (py_diag o) (py_offdiag o) (py_diag_logl o lo) (py_offdiag_logl o lo) (py_continue o lo).",
            "Definition pyx_run_stop {K : Type} (o : Ops K) (lo : LOps K) :=",
            "  prinz_run_stop o (pyx_diag o) (pyx_offdiag o) (pyx_diag_logl o lo) (pyx_offdiag_logl o lo) (pyx_continue o lo).", ""]
    return {"Gen/PrinzGen.v": "\n".join(out)}


if __name__ == "__main__":
    import sys
    print(translate(sys.argv[1] if len(sys.argv) > 1 else "/repo")["Gen/PrinzGen.v"])
