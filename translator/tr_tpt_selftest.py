"""Mutation self-test of translator/tr_tpt.py + Proof/TptGenProofs.v (never touches /repo or /verif/coq).

For each textual mutation of enspara/tpt/core.py: copy the file into a scratch tree, run the translator;
the mutation is caught if the translator rejects it or if the regenerated Gen/TptGen.v makes
Model/TPTGen.v or Proof/TptGenProofs.v fail to compile (in a scratch copy of the needed .vo files).
Usage: /venv/bin/python translator/tr_tpt_selftest.py   (exit 0 iff the unmutated file passes and every mutant is caught)
"""
import os, shutil, subprocess, sys, tempfile
HERE = os.path.dirname(os.path.abspath(__file__))
sys.path.insert(0, HERE)
import tr_tpt
from core import TranslatorReject

REPO = os.environ.get("ENSPARA_REPO", "/repo")
COQ = os.path.join(os.path.dirname(HERE), "coq")
NEED = ["Model/TPT", "Base/TptBase", "Proof/TPTProofs"]
SRC = ["Model/TPTGen.v", "Proof/TptGenProofs.v"]

MUTANTS = [
    ("drop column mask", "    I_m_Q[:, absorbing_states] = 0.0\n", ""),
    ("drop row mask", "    I_m_Q[absorbing_states, :] = 0.0\n", ""),
    ("drop unit diagonal", "    I_m_Q[absorbing_states, absorbing_states] = 1.0\n", ""),
    ("diagonal 0", "I_m_Q[absorbing_states, absorbing_states] = 1.0", "I_m_Q[absorbing_states, absorbing_states] = 0.0"),
    ("diagonal before masks", "    I_m_Q[:, absorbing_states] = 0.0\n    I_m_Q[absorbing_states, :] = 0.0\n    I_m_Q[absorbing_states, absorbing_states] = 1.0\n",
     "    I_m_Q[absorbing_states, absorbing_states] = 1.0\n    I_m_Q[:, absorbing_states] = 0.0\n    I_m_Q[absorbing_states, :] = 0.0\n"),
    ("T - I", "np.eye(n_states) - tprob\n", "tprob - np.eye(n_states)\n"),
    ("rhs order swapped", "    R[sinks] = 1.0\n    R[sources] = 0.0\n", "    R[sources] = 0.0\n    R[sinks] = 1.0\n"),
    ("rhs sink rows 0.5", "R[sinks] = 1.0", "R[sinks] = 0.5"),
    ("rhs from sources", "R = tprob[:, sinks]", "R = tprob[:, sources]"),
    ("rhs rows instead of columns", "R = tprob[:, sinks]", "R = tprob[sinks, :]"),
    ("rhs aliases the input", "R = tprob[:, sinks]", "R = tprob"),
    ("rhs a basic-slice view", "R = tprob[:, sinks]", "R = tprob[:, :]"),
    ("absorbing = sinks only", "np.append(sources, sinks)", "np.append(sinks, sinks)"),
    ("absorbing order", "np.append(sources, sinks)", "np.append(sinks, sources)"),
    ("spsolve arguments swapped", "spsolve(I_m_Q, R)", "spsolve(R, I_m_Q)"),
    ("sum axis 0", ".sum(axis=1)", ".sum(axis=0)"),
    ("drop final pin", "        committors[sinks] = 1.0\n", ""),
    ("pin sources", "        committors[sinks] = 1.0\n", "        committors[sources] = 1.0\n"),
    ("cost vector not zeroed", "        c[sinks] = 0\n", ""),
    ("cost vector zeros", "c = np.ones(n_states)", "c = np.eye(n_states)"),
    ("lagtime dropped (sinks)", "mfpts = lagtime * np.linalg.solve(I_m_Q, c)", "mfpts = np.linalg.solve(I_m_Q, c)"),
    ("lagtime dropped (all)", "mfpts = lagtime * (np.diag(Z) - Z) / W", "mfpts = (np.diag(Z) - Z) / W"),
    ("I - T - W", "np.eye(n_states) - tprob + W", "np.eye(n_states) - tprob - W"),
    ("Z transposed", "(np.diag(Z) - Z) / W", "(np.diag(Z) - Z.T) / W"),
    ("W transposed", "(np.diag(Z) - Z) / W", "(np.diag(Z) - Z) / W.T"),
    ("Z - diag", "(np.diag(Z) - Z) / W", "(Z - np.diag(Z)) / W"),
    ("inv of transposed", "np.linalg.inv(np.eye(n_states) - tprob + W)", "np.linalg.inv(np.eye(n_states) - tprob.T + W)"),
    ("mfpts uses source mask helper", "I_m_Q = _I_m_Q(tprob, sinks, n_states=n_states)", "I_m_Q = _I_m_Q(tprob.T, sinks, n_states=n_states)"),
    ("cached helper array mutated",
     "def mfpts(", "import functools\n\n\n@functools.lru_cache(maxsize=None)\ndef _ones(n):\n    return np.ones(n)\n\n\ndef mfpts("),
    ("cached helper used", "c = np.ones(n_states)", "c = _ones(n_states)"),
    ("lru_cache on _I_m_Q", "def _I_m_Q(", "@functools.lru_cache(maxsize=None)\ndef _I_m_Q("),
    ("module-level cache", "__all__ = ['committors', 'mfpts']", "__all__ = ['committors', 'mfpts']\n_CACHE = {}"),
    ("module-level array", "c = np.ones(n_states)", "c = _ONES"),
    ("default-argument cache", "def mfpts(tprob, sinks=None, populations=None, lagtime=1.):",
     "def mfpts(tprob, sinks=None, populations=None, lagtime=1., _c={}):"),
    ("input mutated", "    n_states = tprob.shape[0]\n\n    # R is", "    n_states = tprob.shape[0]\n    tprob[sinks] = 0.0\n\n    # R is"),
]


def build(text, tmp):
    """returns None if caught, else the reason it was not"""
    rp = os.path.join(tmp, "repo", "enspara", "tpt")
    os.makedirs(rp, exist_ok=True)
    with open(os.path.join(rp, "core.py"), "w") as f:
        f.write(text)
    try:
        files = tr_tpt.translate(os.path.join(tmp, "repo"))
    except TranslatorReject as ex:
        return "rejected: %s" % str(ex)[:110]
    cq = os.path.join(tmp, "coq")
    for d in ("Model", "Base", "Proof", "Gen"):
        os.makedirs(os.path.join(cq, d), exist_ok=True)
    for n in NEED:
        shutil.copy(os.path.join(COQ, n + ".vo"), os.path.join(cq, n + ".vo"))
    for s in SRC:
        shutil.copy(os.path.join(COQ, s), os.path.join(cq, s))
    for rel, t in files.items():
        with open(os.path.join(cq, rel), "w") as f:
            f.write(t)
    for rel in list(files) + SRC:
        p = subprocess.run(["timeout", "120", "coqc", "-q", "-R", ".", "EV", rel], cwd=cq, capture_output=True, text=True)
        if p.returncode != 0:
            return "proof broke: %s: %s" % (rel, " ".join(p.stderr.split())[:90])
    return None


def main():
    src = open(os.path.join(REPO, tr_tpt.REL)).read()
    bad = 0
    with tempfile.TemporaryDirectory() as tmp:
        r = build(src, tmp)
        print("%-34s %s" % ("unmutated", "ok" if r is None else "UNEXPECTED " + r))
        bad += r is not None
    for name, old, new in MUTANTS:
        if src.count(old) != 1:
            print("%-34s NOT APPLICABLE (pattern occurs %d times)" % (name, src.count(old)))
            bad += 1
            continue
        with tempfile.TemporaryDirectory() as tmp:
            r = build(src.replace(old, new), tmp)
        print("%-34s %s" % (name, r if r is not None else "MISSED"))
        bad += r is None
    return 1 if bad else 0


if __name__ == "__main__":
    sys.exit(main())
