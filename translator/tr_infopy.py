"""enspara/info_theory/mutual_info.py, entropy.py  ->  Gen/MutualInfoGen.v, Gen/EntropyGen.v
(vocabulary: Base/InfoPyBase.v; the Cython kernel itself is tr_info.py -> Gen/InfoGen.v)

What is regenerated -- the expression structure that carries property C18:
  joint_counts                     1-D expansion, default state counts (`int(X.max())+1`: Python int, or a
                                   wrapping NumPy scalar when `int()` is missing), Y=None branch, dtype
                                   harmonisation (promote_types, the float64 escape, astype), kernel call
  mutual_information               which axes are summed, operands / broadcast / `where=` mask / `out=`
                                   initial value of every np.divide, the 4-deep accumulation loop, the
                                   skipped cells, the summed expression
  _validate_feature_states_array   broadcast of an int, the rejections
  channel_capacity_normalization   validation, np.fmin of the np.meshgrid grids, division by the log
  mi_matrix                        pooling loop (shape test, `+=`), normalisation switch
  weighted_mi                      validation / renormalisation of the weights, default state counts (their
                                   dtype), weighted bincounts, one-hot layers, matmul of the weighted one-hot
                                   products, meshgrid products of the marginals, the three masked ufuncs
                                   (operands, masks, what `out=` holds), sum over the state pairs, clip
  shannon_entropy                  normalisation, masked log with its `out=` zeros, -sum(p * log p)
  kl_divergence (1-D and 2-D)      (translated once per rank; `axis_sum` is resolved statically) shape test, negativity test, P * log(P / Q) in IEEE arithmetic (nan/inf
                                   are values: Base `xr`), the nan -> 0 repair, sum, division by log(base)

Fail-closed: every function is read statement by statement; a statement or expression outside the forms
listed at each `tr_*` function raises TranslatorReject.  Static typing (the part of NumPy semantics this
translator is trusted for): arrays carry (element type, rank); element types N (count, nat), Qp
(probability, Q), R (double as ideal real), Z (int), X (IEEE double incl. nan/inf, `xr`), B (bool).
Not translated: mi_matrix_serial, mi_to_nmi_apc / mi_to_nmi / mi_to_apc, deconvolute_network (no model).
"""
import ast, os
from pyast import parse_file, find_func, reject, strip_doc
from core import TranslatorReject

REL_MI = "enspara/info_theory/mutual_info.py"
REL_EN = "enspara/info_theory/entropy.py"

HEADER = ["From Coq Require Import List ZArith QArith Qabs Qreals Bool Arith Reals.",
          "From EV Require Import JointCounts Info InfoPyBase.", "Import ListNotations.", ""]


# ------------------------------------------------------------------------------------------ small helpers
def U(e):
    return ast.unparse(e)


def is_name(e, name=None):
    return isinstance(e, ast.Name) and (name is None or e.id == name)


def int_const(e):
    if isinstance(e, ast.Constant) and type(e.value) is int:
        return e.value
    if isinstance(e, ast.UnaryOp) and isinstance(e.op, ast.USub):
        v = int_const(e.operand)
        return None if v is None else -v
    return None


def check_sig(fn, names, defaults=()):
    a = fn.args
    if [x.arg for x in a.args] != list(names) or a.vararg or a.kwarg or a.kwonlyargs or a.posonlyargs \
            or fn.decorator_list:
        reject(fn, "unexpected signature of %s" % fn.name)
    if [U(d) for d in a.defaults] != list(defaults):
        reject(fn, "unexpected defaults of %s: %s" % (fn.name, [U(d) for d in a.defaults]))


def is_raise(stmts):
    return len(stmts) == 1 and isinstance(stmts[0], ast.Raise)


def is_warn_only(stmts):
    return len(stmts) == 1 and isinstance(stmts[0], ast.Expr) and isinstance(stmts[0].value, ast.Call) \
        and U(stmts[0].value.func) == "warnings.warn"


def is_log_call(s):
    return isinstance(s, ast.Expr) and isinstance(s.value, ast.Call) and U(s.value.func) in (
        "logger.debug", "logger.info")


def shape_dim(e):
    """NAME.shape[k] -> (NAME, k) or None"""
    if isinstance(e, ast.Subscript) and isinstance(e.value, ast.Attribute) and e.value.attr == "shape" \
            and is_name(e.value.value) and int_const(e.slice) in (0, 1):
        return e.value.value.id, int_const(e.slice)
    return None


def nest(fn, depth, inner):
    """fn applied under `depth` list levels"""
    for _ in range(depth):
        inner = "%s (%s)" % (fn, inner) if " " in inner else "%s %s" % (fn, inner)
    return inner


CMP_NAT = {ast.Gt: "({c} <? {x})%nat", ast.GtE: "({c} <=? {x})%nat", ast.Lt: "({x} <? {c})%nat",
           ast.LtE: "({x} <=? {c})%nat", ast.Eq: "({x} =? {c})%nat", ast.NotEq: "negb ({x} =? {c})%nat"}
CMP_Z = {ast.Gt: "({c} <? {x})%Z", ast.GtE: "({c} <=? {x})%Z", ast.Lt: "({x} <? {c})%Z",
         ast.LtE: "({x} <=? {c})%Z", ast.Eq: "({x} =? {c})%Z", ast.NotEq: "negb ({x} =? {c})%Z"}
CMP_R = {ast.Gt: "Rlt_b {c} {x}", ast.Lt: "Rlt_b {x} {c}", ast.Eq: "Req_b {x} {c}",
         ast.NotEq: "negb (Req_b {x} {c})", ast.GtE: "negb (Rlt_b {x} {c})", ast.LtE: "negb (Rlt_b {c} {x})"}
CMP_Q = {ast.Eq: "(Qeq_bool {x} {c})", ast.NotEq: "(negb (Qeq_bool {x} {c}))",
         ast.LtE: "(Qle_bool {x} {c})", ast.Gt: "(negb (Qle_bool {x} {c}))",
         ast.GtE: "(Qle_bool {c} {x})", ast.Lt: "(negb (Qle_bool {c} {x}))"}
ZERO = {"N": "0%nat", "Qp": "0%Q", "R": "0%R", "Z": "0%Z"}


def elem_cmp(node, x, ety):
    """comparison of an element `x` of type ety with an integer literal -> Coq bool term"""
    if not (isinstance(node, ast.Compare) and len(node.ops) == 1):
        reject(node, "expected one comparison")
    c = int_const(node.comparators[0])
    if c is None or c < 0:
        reject(node, "expected a non-negative integer literal on the right of the comparison")
    table = {"N": CMP_NAT, "Z": CMP_Z, "R": CMP_R, "Qp": CMP_Q}.get(ety)
    if table is None or type(node.ops[0]) not in table:
        reject(node, "unsupported comparison on element type %s" % ety)
    return table[type(node.ops[0])].format(x=x, c=str(c))


# ------------------------------------------------------------------------------------------ array operands
class Env:
    """names -> (element type, rank); `owned` = fresh arrays this function may overwrite"""

    def __init__(self, **kw):
        self.ty = dict(kw)
        self.owned = set()
        self.lets = []

    def get(self, e):
        if not is_name(e) or e.id not in self.ty:
            reject(e, "expected a bound array name")
        return e.id, self.ty[e.id]

    def bind(self, name, term, ty, owned=True):
        if name in ("np", "exception", "warnings", "libinfo", "logger", "itertools", "numbers"):
            reject(ast.Name(id=name), "assignment to a module name")
        self.lets.append("let %s := %s in" % (name, term))
        self.ty[name] = ty
        if owned:
            self.owned.add(name)
        else:
            self.owned.discard(name)


def operand(env, e):
    """array operand of a ufunc -> (name, (ety, rank), trailing_nones, template with {} for the element, ety')
    forms: NAME | NAME[..., None, ...] | np.log(NAME) (elements become reals) | (operand)"""
    if isinstance(e, ast.Call) and U(e.func) == "np.log" and len(e.args) == 1 and not e.keywords:
        n, t, k, tpl, ety = operand(env, e.args[0])
        conv = {"R": "ln %s", "Z": "ln (IZR %s)"}.get(ety)
        if conv is None:
            reject(e, "np.log of element type %s" % ety)
        return n, t, k, conv % tpl, "R"
    if isinstance(e, ast.Call) and U(e.func).startswith("np.log"):
        reject(e, "only the natural logarithm np.log is in the vocabulary")
    if isinstance(e, ast.Subscript) and is_name(e.value) and isinstance(e.slice, ast.Tuple):
        el = e.slice.elts
        if len(el) >= 2 and isinstance(el[0], ast.Constant) and el[0].value is Ellipsis \
                and all(isinstance(x, ast.Constant) and x.value is None for x in el[1:]):
            n, t = env.get(e.value)
            return n, t, len(el) - 1, "{}", t[0]
        reject(e, "unsupported subscript of a ufunc operand (only NAME[..., None, ...])")
    n, t = env.get(e)
    return n, t, 0, "{}", t[0]


def out_zeros(env, e, like, ety):
    """np.zeros(LIKE.shape, dtype=float) | np.zeros(np.shape(LIKE), dtype=float) -> initial value term"""
    ok = isinstance(e, ast.Call) and U(e.func) == "np.zeros" and len(e.args) == 1 and len(e.keywords) == 1 \
        and e.keywords[0].arg == "dtype" and U(e.keywords[0].value) == "float"
    if ok:
        sh = e.args[0]
        nm = None
        if isinstance(sh, ast.Attribute) and sh.attr == "shape" and is_name(sh.value):
            nm = sh.value.id
        elif isinstance(sh, ast.Call) and U(sh.func) == "np.shape" and len(sh.args) == 1 and is_name(sh.args[0]):
            nm = sh.args[0].id
        if nm is not None and (nm == like or (nm in env.ty and env.ty[nm][1] == env.ty[like][1] and
                                              env.ty[nm] == env.ty[like])):
            if nm != like:
                reject(e, "`out=` zeros must take the shape of the first operand %s" % like)
            return ZERO[ety]
    reject(e, "expected out=np.zeros(%s.shape, dtype=float)" % like)


def ufunc_divide(env, e):
    """np.divide(A, B, [where=M, out=O]) -> (term, type) ; out=A handled by the caller"""
    kws = {k.arg: k.value for k in e.keywords}
    if len(e.args) != 2 or set(kws) - {"where", "out"} or len(kws) != len(e.keywords):
        reject(e, "expected np.divide(A, B, where=.., out=..)")
    a, ta, ka, tpa, ea = operand(env, e.args[0])
    b, tb, kb, tpb, eb = operand(env, e.args[1])
    if ka != 0 or tpa != "{}":
        reject(e, "first operand of np.divide must be a plain array name")
    if tb[1] + kb != ta[1]:
        reject(e, "np.divide: operand of rank %d with %d added axes against rank %d" % (tb[1], kb, ta[1]))
    ea_var, eb_var = ("a_", "b_") if kb == 0 else ("a_", "y_")
    if (ea, eb) == ("N", "N"):
        val, ety = "(np_true_divide %s %s)" % (ea_var, tpb.format(eb_var)), "Qp"
    elif (ea, eb) == ("R", "R"):
        val, ety = "(%s / %s)%%R" % (ea_var, tpb.format(eb_var)), "R"
    else:
        reject(e, "np.divide of element types %s / %s" % (ea, eb))
    if "where" in kws:
        if "out" not in kws:
            reject(e, "`where=` without `out=`: the masked cells would be uninitialised memory")
        m = kws["where"]
        if not isinstance(m, ast.Compare):
            reject(m, "expected a comparison as the mask")
        mn, mt, mk, mtpl, me = operand(env, m.left)
        if (mn, mk) == (b, kb):
            mask = elem_cmp(m, mtpl.format(eb_var), me)
        elif (mn, mk) == (a, 0):
            mask = elem_cmp(m, mtpl.format(ea_var), me)
        else:
            reject(m, "the mask must be a comparison on one of the two operands, broadcast the same way")
        init = out_zeros(env, kws["out"], a, ety)
        val = "where_out %s %s %s" % (mask, val, init)
    elif "out" in kws:
        if not is_name(kws["out"], a):
            out_zeros(env, kws["out"], a, ety)
    if kb == 0:
        term = "%s %s %s" % (nest("zip2", tb[1] - 1, "zip2 (fun a_ b_ => %s)" % val), a, b)
    else:
        inner = "fun x_ y_ => %s x_" % nest("map", kb - 1, "map (fun a_ => %s)" % val)
        term = "%s %s %s" % (nest("zip2", tb[1] - 1, "zip2 (%s)" % inner), a, b)
    return term, (ety, ta[1])


def array_sum(env, e):
    """A.sum(axis=-1 | -2) on a count array"""
    if not (isinstance(e.func, ast.Attribute) and e.func.attr == "sum" and not e.args and len(e.keywords) == 1
            and e.keywords[0].arg == "axis"):
        reject(e, "expected NAME.sum(axis=k)")
    a, (ety, r) = env.get(e.func.value)
    k = int_const(e.keywords[0].value)
    if k is None:
        reject(e, "axis must be an integer literal")
    if k >= 0:
        k -= r
    if ety != "N":
        reject(e, ".sum(axis=) of element type %s" % ety)
    if k == -1 and r >= 1:
        return "%s %s" % (nest("map", r - 2, "map sum_last") if r >= 2 else "sum_last", a), (ety, r - 1)
    if k == -2 and r >= 2:
        return "%s %s" % (nest("map", r - 3, "map sum_cols") if r >= 3 else "sum_cols", a), (ety, r - 1)
    reject(e, "only the last two axes can be summed (axis=%s of a rank-%d array)" % (U(e.keywords[0].value), r))


# ------------------------------------------------------------------------------------------ scalar code of loops
class Loop:
    """accumulation loops: `for V in range(X.shape[k])` nests, sub-array lets, a guard, ACC[i, j] += <real>"""

    def __init__(self, env, acc):
        self.env, self.acc = env, acc
        self.vars = []
        self.bools = {}

    def scalar_q(self, e):
        """P[u, v] / P[u] of a probability table -> Q term"""
        if isinstance(e, ast.Subscript) and is_name(e.value) and e.value.id in self.env.ty:
            n, (ety, r) = self.env.get(e.value)
            idx = e.slice.elts if isinstance(e.slice, ast.Tuple) else [e.slice]
            if ety == "Qp" and len(idx) == r and r in (1, 2) and all(is_name(x) and x.id in self.vars for x in idx):
                return "(at%dq %s %s)" % (r, n, " ".join(x.id for x in idx))
        return None

    def real(self, e):
        q = self.scalar_q(e)
        if q is not None:
            return "Q2R %s" % q
        if isinstance(e, ast.BinOp) and type(e.op) in (ast.Mult, ast.Div, ast.Add, ast.Sub):
            op = {ast.Mult: "*", ast.Div: "/", ast.Add: "+", ast.Sub: "-"}[type(e.op)]
            l, r = self.real(e.left), self.real(e.right)
            if isinstance(e.right, ast.BinOp):
                r = "(%s)" % r
            if isinstance(e.left, ast.BinOp) and op in "*/" and type(e.left.op) in (ast.Add, ast.Sub):
                l = "(%s)" % l
            return "%s %s %s" % (l, op, r)
        if isinstance(e, ast.Call) and U(e.func) == "np.log" and len(e.args) == 1 and not e.keywords:
            return "ln (%s)" % self.real(e.args[0])
        if isinstance(e, ast.Call) and U(e.func).startswith("np.log"):
            reject(e, "only the natural logarithm np.log is in the vocabulary")
        reject(e, "unsupported real-valued expression")

    def boolean(self, e):
        if isinstance(e, ast.BoolOp):
            op = " || " if isinstance(e.op, ast.Or) else " && "
            return op.join(self.boolean(v) for v in e.values)
        if isinstance(e, ast.UnaryOp) and isinstance(e.op, ast.Not):
            return "negb %s" % self.atom(e.operand)
        if is_name(e) and e.id in self.bools:
            return e.id
        if isinstance(e, ast.Compare) and len(e.ops) == 1:
            q = self.scalar_q(e.left)
            if q is not None:
                return elem_cmp(e, q, "Qp")
        reject(e, "unsupported condition")

    def atom(self, e):
        t = self.boolean(e)
        return t if is_name(e) else "(%s)" % t

    def body(self, stmts, depth):
        """lets followed by exactly one effect statement -> Coq term of the accumulator's type"""
        pad = "  " * depth
        lets = []
        for s in stmts[:-1]:
            if not (isinstance(s, ast.Assign) and len(s.targets) == 1 and is_name(s.targets[0])):
                reject(s, "expected NAME = ... inside the loop")
            name = s.targets[0].id
            if name in self.vars or name == self.acc or name in self.env.ty:
                reject(s, "rebinding of %s inside the loop" % name)
            v = s.value
            if isinstance(v, ast.Subscript) and is_name(v.value) and v.value.id in self.env.ty \
                    and isinstance(v.slice, ast.Tuple) and len(v.slice.elts) == 2 \
                    and all(is_name(x) and x.id in self.vars for x in v.slice.elts):
                n, (ety, r) = self.env.get(v.value)
                if r < 3:
                    reject(s, "sub-array of a rank-%d array" % r)
                self.env.ty[name] = (ety, r - 2)
                lets.append("%slet %s := sub2of %s %s %s in" % (pad, name, n, v.slice.elts[0].id, v.slice.elts[1].id))
            else:
                lets.append("%slet %s := %s in" % (pad, name, self.boolean(v)))
                self.bools[name] = True
        return "\n".join(lets + [self.effect(stmts[-1], depth)])

    def effect(self, s, depth):
        pad = "  " * depth
        acc = self.acc
        if isinstance(s, ast.For):
            if not (is_name(s.target) and not s.orelse and isinstance(s.iter, ast.Call) and is_name(s.iter.func, "range")
                    and len(s.iter.args) == 1 and not s.iter.keywords):
                reject(s, "expected `for V in range(X.shape[k])`")
            d = shape_dim(s.iter.args[0])
            if d is None or d[0] not in self.env.ty or self.env.ty[d[0]][1] <= d[1]:
                reject(s, "loop bound must be X.shape[0|1] of a bound array")
            v = s.target.id
            if v in self.vars or v in self.env.ty or v == acc:
                reject(s, "loop variable %s is not fresh" % v)
            self.vars.append(v)
            inner = self.body(list(s.body), depth + 1 if len(s.body) > 1 else depth)
            return "%sfor_n (dim%d %s) (fun %s %s =>\n%s) %s" % (pad, d[1], d[0], acc, v, inner, acc)
        if isinstance(s, ast.If):
            if s.orelse or len(s.body) != 1:
                reject(s, "expected `if C: <one statement>` without else")
            return "%sif %s then %s else %s" % (pad, self.boolean(s.test), self.effect(s.body[0], 0), acc)
        if isinstance(s, ast.AugAssign) and isinstance(s.op, ast.Add) and isinstance(s.target, ast.Subscript) \
                and is_name(s.target.value, acc) and isinstance(s.target.slice, ast.Tuple) \
                and len(s.target.slice.elts) == 2 and all(is_name(x) and x.id in self.vars for x in s.target.slice.elts):
            i, j = (x.id for x in s.target.slice.elts)
            return "%siadd2 %s %s %s (%s)%%R" % (pad, acc, i, j, self.real(s.value))
        reject(s, "unsupported statement in the accumulation loop")


# ------------------------------------------------------------------------------------------ mutual_information
VALIDATE_JC = """def _validate_joint_counts_matrix(jc):
    if len(jc.shape) == 2:
        raise exception.DataInvalid('Expected a 4D array of joint counts matrices, but got a 2D  array. If your dataset is a single joint counts matrix, try `jc[None, None, ...]` to expand its dimensions.')
    if len(jc.shape) != 4:
        raise exception.DataInvalid('Expected a 4D array of joint counts matrices, but an array with shape %s.' % (jc.shape,))
    return jc"""


def tr_mutual_information(tree):
    """jc = _validate_joint_counts_matrix(jc)      (that function: exact text, rank-4 check returning jc)
    NAME = ARR.sum(axis=-1|-2)                      NAME = np.divide(A, B[..., None..], where=B[..] > c, out=np.zeros(A.shape, dtype=float))
    assert np.all(~np.isnan(NAME))                  (NAME a rational table: no nan; skipped)
    ACC = np.zeros(shape=jc.shape[0:2])             the loop nest (class Loop)          return ACC"""
    if U(find_func(tree, "_validate_joint_counts_matrix", REL_MI)) != VALIDATE_JC:
        raise TranslatorReject("%s: _validate_joint_counts_matrix changed: not translated" % REL_MI)
    fn = find_func(tree, "mutual_information", REL_MI)
    check_sig(fn, ["jc"])
    b = strip_doc(fn.body)
    if not b or U(b[0]) != "jc = _validate_joint_counts_matrix(jc)":
        reject(fn, "expected jc = _validate_joint_counts_matrix(jc) first")
    env = Env(jc=("N", 4))
    acc = None
    out = None
    i = 1
    while i < len(b):
        s = b[i]
        i += 1
        if isinstance(s, ast.Assert):
            t = s.test
            ok = isinstance(t, ast.Call) and U(t.func) == "np.all" and len(t.args) == 1 \
                and isinstance(t.args[0], ast.UnaryOp) and isinstance(t.args[0].op, ast.Invert) \
                and isinstance(t.args[0].operand, ast.Call) and U(t.args[0].operand.func) == "np.isnan" \
                and len(t.args[0].operand.args) == 1 and is_name(t.args[0].operand.args[0]) \
                and env.ty.get(t.args[0].operand.args[0].id, ("", 0))[0] == "Qp"
            if not ok:
                reject(s, "only `assert np.all(~np.isnan(TABLE))` on a rational table is skipped")
            continue
        if isinstance(s, ast.Assign) and len(s.targets) == 1 and is_name(s.targets[0]):
            name, v = s.targets[0].id, s.value
            if name == "jc":
                reject(s, "rebinding of jc")
            if isinstance(v, ast.Call) and isinstance(v.func, ast.Attribute) and v.func.attr == "sum":
                term, ty = array_sum(env, v)
                env.bind(name, term, ty)
                continue
            if isinstance(v, ast.Call) and U(v.func) == "np.divide":
                term, ty = ufunc_divide(env, v)
                env.bind(name, term, ty)
                continue
            if isinstance(v, ast.Call) and U(v.func) == "np.zeros":
                a = v.args[0] if (len(v.args) == 1 and not v.keywords) else (
                    v.keywords[0].value if (not v.args and len(v.keywords) == 1 and v.keywords[0].arg == "shape") else None)
                if a is None or U(a) != "jc.shape[0:2]":
                    reject(s, "expected np.zeros(shape=jc.shape[0:2])")
                acc = name
                env.lets.append("let %s := zeros2R (dim0 jc) (dim1 jc) in" % acc)
                if i >= len(b) or not isinstance(b[i], ast.For):
                    reject(s, "the accumulator must be followed by the loop nest")
                out = Loop(env, acc).effect(b[i], 1)
                i += 1
                if i != len(b) - 1 or not (isinstance(b[i], ast.Return) and is_name(b[i].value, acc)):
                    reject(fn, "expected `return %s` right after the loop nest" % acc)
                i += 1
                continue
        reject(s, "unsupported statement in mutual_information")
    if out is None:
        reject(fn, "no accumulation loop found")
    return ("(* mutual_information *)\nDefinition gen_mutual_information (jc : tbl4) : list (list R) :=\n  %s\n%s.\n"
            % ("\n  ".join(env.lets), out))


# ------------------------------------------------------------------------------------------ state-count vectors
def raise_guard(s, conds):
    """`if C: raise ...` with C in the table conds (text -> Coq bool term or None = statically false)"""
    if not (isinstance(s, ast.If) and not s.orelse and is_raise(s.body)):
        reject(s, "expected `if C: raise ...`")
    c = U(s.test)
    if c not in conds:
        reject(s, "unsupported rejection condition `%s`" % c)
    return conds[c]


def any_cmp(e, arr, ety="Z"):
    """np.any(ARR <op> c) -> np_any (map (fun a_ => ...) ARR), or None"""
    if isinstance(e, ast.Call) and U(e.func) in ("np.any", "np.all") and len(e.args) == 1 and not e.keywords \
            and isinstance(e.args[0], ast.Compare) and is_name(e.args[0].left, arr):
        return "%s (map (fun a_ => %s) %s)" % (U(e.func).replace(".", "_"), elem_cmp(e.args[0], "a_", ety), arr)
    return None


def tr_validate_states(tree):
    """if not hasattr(n, '__len__'): n = np.full(mi_dim, n, dtype='int')  else: n = np.array(n)
    if np.any(n <op> c): raise      if len(n) != mi_dim: raise
    if not issubclass(n.dtype.type, numbers.Integral): raise   (statically false: n holds integers here)
    return n"""
    fn = find_func(tree, "_validate_feature_states_array", REL_MI)
    check_sig(fn, ["n", "mi_dim"])
    b = strip_doc(fn.body)
    first = "if not hasattr(n, '__len__'):\n    n = np.full(mi_dim, n, dtype='int')\nelse:\n    n = np.array(n)"
    if not b or U(b[0]) != first:
        reject(fn, "expected the int / array-like normalisation of n first")
    lines = ["let n := match n with inl k_ => np_full mi_dim k_ | inr l_ => l_ end in"]
    for s in b[1:-1]:
        if not (isinstance(s, ast.If) and not s.orelse and is_raise(s.body)):
            reject(s, "expected `if C: raise ...`")
        t = s.test
        c = any_cmp(t, "n")
        if c is None and U(t) == "len(n) != mi_dim":
            c = "negb (length n =? mi_dim)%nat"
        if c is None and U(t) == "not issubclass(n.dtype.type, numbers.Integral)":
            continue
        if c is None:
            reject(s, "unsupported rejection condition")
        lines.append("if %s then None else" % c)
    if not (isinstance(b[-1], ast.Return) and is_name(b[-1].value, "n")):
        reject(fn, "expected `return n`")
    lines.append("Some n.")
    return ("(* _validate_feature_states_array *)\nDefinition gen_validate_feature_states_array (n : Z + list Z) "
            "(mi_dim : nat) : option (list Z) :=\n  %s\n" % "\n  ".join(lines))


GRID_FN = {"np.fmin": "Z.min", "np.minimum": "Z.min", "np.fmax": "Z.max", "np.maximum": "Z.max"}


def tr_channel_capacity(tree):
    """mi = mi.copy()
    n_x = _validate_feature_states_array(n_x, mi.shape[0])      n_y = ...(n_y, mi.shape[1])
    assert np.all(n_x >= c)
    G = np.fmin|fmax|minimum|maximum(*np.meshgrid(A, B[, indexing='ij'|'xy']))
    np.divide(mi, np.log(G), out=mi)         (in place on the copy)          return mi"""
    fn = find_func(tree, "channel_capacity_normalization", REL_MI)
    check_sig(fn, ["mi", "n_x", "n_y"])
    b = strip_doc(fn.body)
    if not b or U(b[0]) != "mi = mi.copy()":
        reject(fn, "expected mi = mi.copy() first (the division below writes into mi)")
    lines = []
    vecs = set()
    grid = None
    i = 1
    while i < len(b) and grid is None:
        s = b[i]
        i += 1
        if isinstance(s, ast.Assign) and len(s.targets) == 1 and is_name(s.targets[0]):
            name, v = s.targets[0].id, s.value
            if isinstance(v, ast.Call) and U(v.func) == "_validate_feature_states_array":
                if not (len(v.args) == 2 and not v.keywords and is_name(v.args[0], name) and name in ("n_x", "n_y")
                        and name not in vecs and shape_dim(v.args[1]) in (("mi", 0), ("mi", 1))):
                    reject(s, "expected n = _validate_feature_states_array(n, mi.shape[k])")
                lines.append("obind (gen_validate_feature_states_array %s mi_shape%d) (fun %s =>"
                             % (name, shape_dim(v.args[1])[1], name))
                vecs.add(name)
                continue
            if isinstance(v, ast.Call) and U(v.func) in GRID_FN:
                ok = len(v.args) == 1 and not v.keywords and isinstance(v.args[0], ast.Starred) \
                    and isinstance(v.args[0].value, ast.Call) and U(v.args[0].value.func) == "np.meshgrid"
                if not ok:
                    reject(s, "expected %s(*np.meshgrid(A, B, indexing='ij'))" % U(v.func))
                m = v.args[0].value
                kw = {k.arg: k.value for k in m.keywords}
                if len(m.args) != 2 or set(kw) - {"indexing"} or not all(is_name(x) and x.id in vecs for x in m.args):
                    reject(s, "np.meshgrid of two validated state-count vectors expected")
                ind = "xy"
                if "indexing" in kw:
                    if not (isinstance(kw["indexing"], ast.Constant) and kw["indexing"].value in ("ij", "xy")):
                        reject(s, "indexing must be 'ij' or 'xy'")
                    ind = kw["indexing"].value
                a0, a1 = m.args[0].id, m.args[1].id
                lines.append("let %s := zip2 (zip2 %s) (meshgrid_%s0 %s %s) (meshgrid_%s1 %s %s) in"
                             % (name, GRID_FN[U(v.func)], ind, a0, a1, ind, a0, a1))
                grid = name
                continue
        if isinstance(s, ast.Assert) and s.msg is None:
            c = None
            for nm in vecs:
                c = c or any_cmp(s.test, nm)
            if c is None or not c.startswith("np_all"):
                reject(s, "expected assert np.all(n >= c) on a validated vector")
            lines.append("if negb (%s) then None else" % c)
            continue
        reject(s, "unsupported statement in channel_capacity_normalization")
    if grid is None or vecs != {"n_x", "n_y"}:
        reject(fn, "expected both validations and the grid")
    rest = b[i:]
    if len(rest) != 2 or not (isinstance(rest[1], ast.Return) and is_name(rest[1].value, "mi")):
        reject(fn, "expected the division and `return mi` after the grid")
    d = rest[0]
    if not (isinstance(d, ast.Expr) and isinstance(d.value, ast.Call) and U(d.value.func) == "np.divide"):
        reject(d, "expected np.divide(mi, np.log(%s), out=mi)" % grid)
    kws = {k.arg: k.value for k in d.value.keywords}
    if set(kws) != {"out"} or not is_name(kws["out"], "mi"):
        reject(d, "expected out=mi (and no mask)")
    env = Env(mi=("R", 2))
    env.ty[grid] = ("Z", 2)
    term, ty = ufunc_divide(env, d.value)
    if ty != ("R", 2) or not term.endswith(" mi %s" % grid):
        reject(d, "expected np.divide(mi, np.log(%s), out=mi)" % grid)
    closing = ")" * len(vecs)
    t1 = ("(* channel_capacity_normalization: the divisor grid, then the division *)\n"
          "Definition gen_cc_min_num_states (mi_shape0 mi_shape1 : nat) (n_x n_y : Z + list Z) : option (list (list Z)) :=\n"
          "  %s\n  Some %s%s.\n" % ("\n  ".join(lines), grid, closing))
    t2 = ("Definition gen_channel_capacity_normalization (mi : list (list R)) (n_x n_y : Z + list Z) : option (list (list R)) :=\n"
          "  obind (gen_cc_min_num_states (dim0 mi) (dim1 mi) n_x n_y) (fun %s =>\n  Some (%s)).\n" % (grid, term))
    return t1 + "\n" + t2


# ------------------------------------------------------------------------------------------ joint_counts
INT_DTYPES = {"np.int8": "I8", "np.int16": "I16", "np.int32": "I32", "np.int64": "I64",
              "np.uint8": "U8", "np.uint16": "U16", "np.uint32": "U32", "np.uint64": "U64"}


def default_count(e, arr):
    """state-count default from ARR.max(): `int(ARR.max()) + 1` etc. -> option Z term"""
    def go(x):
        # -> (term, kind) with kind "np" (NumPy scalar of ARR's type) or "py" (Python int)
        if isinstance(x, ast.Call) and not x.keywords and not x.args and isinstance(x.func, ast.Attribute) \
                and x.func.attr == "max" and is_name(x.func.value, arr):
            return "m_", "np"
        if isinstance(x, ast.Call) and U(x.func) == "np.max" and len(x.args) == 1 and not x.keywords \
                and is_name(x.args[0], arr):
            return "m_", "np"
        if isinstance(x, ast.Call) and is_name(x.func, "int") and len(x.args) == 1 and not x.keywords:
            t, k = go(x.args[0])
            return "py_int %s" % (t if " " not in t else "(%s)" % t), "py"
        if isinstance(x, ast.BinOp) and isinstance(x.op, ast.Add) and int_const(x.right) is not None:
            t, k = go(x.left)
            c = int_const(x.right)
            if k == "py":
                return "(%s + %d)%%Z" % (t, c), "py"
            return "scalar_add (dt %s) %s %d" % (arr, t if " " not in t else "(%s)" % t, c), "np"
        reject(x, "unsupported default state count (expected int(%s.max()) + 1)" % arr)
    t, _ = go(e)
    return "option_map (fun m_ => %s) (arr_max %s)" % (t, arr)


def default_stmt(s, n, arr):
    ok = isinstance(s, ast.If) and U(s.test) == "%s is None" % n and not s.orelse and len(s.body) == 1 \
        and isinstance(s.body[0], ast.Assign) and len(s.body[0].targets) == 1 and is_name(s.body[0].targets[0], n)
    if not ok:
        reject(s, "expected `if %s is None: %s = <default>`" % (n, n))
    return "obind (match %s with Some %s => Some %s | None => %s end) (fun %s =>" % (
        n, n, n, default_count(s.body[0].value, arr), n)


def kernel_call(s):
    ok = isinstance(s, ast.Assign) and len(s.targets) == 1 and is_name(s.targets[0], "jc") \
        and isinstance(s.value, ast.Call) and U(s.value.func) == "libinfo.matrix_bincount2d" \
        and len(s.value.args) == 4 and not s.value.keywords and all(is_name(a) for a in s.value.args)
    if not ok:
        reject(s, "expected jc = libinfo.matrix_bincount2d(A, B, n, m)")
    a = [x.id for x in s.value.args]
    if a[0] not in ("X", "Y") or a[1] not in ("X", "Y") or a[2] not in ("n_x", "n_y") or a[3] not in ("n_x", "n_y"):
        reject(s, "unexpected arguments of the kernel call")
    return "call_bincount %s" % " ".join(a)


def dtype_cond(e):
    if isinstance(e, ast.BoolOp) and isinstance(e.op, ast.And):
        return " && ".join(dtype_cond(v) for v in e.values)
    t = U(e)
    if t == "common.kind == 'f'":
        return "kind_eqb (kind_of common) KF"
    for a in ("X", "Y"):
        if t == "%s.dtype.kind in 'iu'" % a:
            return "negb (kind_eqb (kind_of (dt %s)) KF)" % a
    reject(e, "unsupported dtype condition")


def harmonise(s):
    """if X.dtype != Y.dtype: [warn]; common = np.promote_types(X.dtype, Y.dtype);
       [if <dtype cond>: common = np.dtype(np.intN)]; X = X.astype(common); Y = Y.astype(common)"""
    if not (isinstance(s, ast.If) and U(s.test) in ("X.dtype != Y.dtype", "Y.dtype != X.dtype") and not s.orelse):
        reject(s, "expected `if X.dtype != Y.dtype:`")
    lets = []
    have = False
    done = []
    for x in s.body:
        if isinstance(x, ast.Expr) and isinstance(x.value, ast.Call) and U(x.value.func) == "warnings.warn":
            continue
        if isinstance(x, ast.Assign) and len(x.targets) == 1 and is_name(x.targets[0], "common") and not done:
            v = x.value
            if not (isinstance(v, ast.Call) and U(v.func) == "np.promote_types" and not v.keywords
                    and sorted(U(a) for a in v.args) == ["X.dtype", "Y.dtype"]):
                reject(x, "expected common = np.promote_types(X.dtype, Y.dtype)")
            lets.append("let common := promote_types (dt %s) (dt %s) in" % (U(v.args[0])[0], U(v.args[1])[0]))
            have = True
            continue
        if isinstance(x, ast.If) and have and not done and not x.orelse and len(x.body) == 1 \
                and isinstance(x.body[0], ast.Assign) and is_name(x.body[0].targets[0], "common"):
            v = x.body[0].value
            if not (isinstance(v, ast.Call) and U(v.func) == "np.dtype" and len(v.args) == 1 and U(v.args[0]) in INT_DTYPES):
                reject(x, "expected common = np.dtype(np.intN)")
            lets.append("let common := if %s then %s else common in" % (dtype_cond(x.test), INT_DTYPES[U(v.args[0])]))
            continue
        if isinstance(x, ast.Assign) and len(x.targets) == 1 and have and is_name(x.targets[0]) \
                and x.targets[0].id in ("X", "Y") and U(x.value) == "%s.astype(common)" % x.targets[0].id \
                and x.targets[0].id not in done:
            done.append(x.targets[0].id)
            lets.append("let %s := astype common %s in" % (x.targets[0].id, x.targets[0].id))
            continue
        reject(x, "unsupported statement in the dtype harmonisation")
    if not have:
        reject(s, "no np.promote_types in the harmonisation block")
    return ("let '(X, Y) :=\n      if negb (dtype_eqb (dt X) (dt Y)) then\n        %s\n        (X, Y)\n      else (X, Y) in"
            % "\n        ".join(lets))


def tr_joint_counts(tree):
    fn = find_func(tree, "joint_counts", REL_MI)
    check_sig(fn, ["X", "Y", "n_x", "n_y"], ["None", "None", "None"])
    b = strip_doc(fn.body)
    want0 = "if len(X.shape) == 1:\n    X = X[..., None]"
    want1 = "if Y is not None and len(Y.shape) == 1:\n    Y = Y[..., None]"
    if len(b) != 5 or U(b[0]) != want0 or U(b[1]) != want1:
        reject(fn, "expected the two 1-D expansions, the n_x default, the Y-is-None switch and the return")
    L = ["let X := if is1d X then expand_last X else X in",
         "let Y := match Y with Some Y => Some (if is1d Y then expand_last Y else Y) | None => None end in",
         default_stmt(b[2], "n_x", "X")]
    sw = b[3]
    if not (isinstance(sw, ast.If) and U(sw.test) == "Y is None" and sw.orelse):
        reject(sw, "expected `if Y is None: ... else: ...`")
    yes = [s for s in sw.body if not (isinstance(s, ast.If) and U(s.test) == "n_y is not None" and not s.orelse
                                      and is_warn_only(s.body))]
    if len(yes) != 1:
        reject(sw, "Y is None: expected only the kernel call")
    call_self = kernel_call(yes[0])
    if "Y" in call_self.split():
        reject(yes[0], "Y is None in this branch")
    no = list(sw.orelse)
    if not no:
        reject(sw, "empty else branch")
    call_two = kernel_call(no[-1])
    mid = []
    seen_default = False
    for s in no[:-1]:
        if isinstance(s, ast.If) and U(s.test) == "n_y is None" and not seen_default:
            mid.append(default_stmt(s, "n_y", "Y"))
            seen_default = True
        elif isinstance(s, ast.If) and "dtype" in U(s.test):
            mid.append(harmonise(s))
        else:
            reject(s, "unsupported statement in the two-array branch")
    if not seen_default:
        reject(sw, "the two-array branch must default n_y")
    if not (isinstance(b[4], ast.Return) and is_name(b[4].value, "jc")):
        reject(fn, "expected `return jc`")
    closing = ")" if seen_default else ""
    return ("(* joint_counts *)\nDefinition gen_joint_counts (X : ndarr) (Y : option ndarr) (n_x n_y : option Z) : option tbl4 :=\n"
            "  %s\n  match Y with\n  | None => %s\n  | Some Y =>\n    %s\n    %s%s\n  end).\n"
            % ("\n  ".join(L), call_self, "\n    ".join(mid), call_two, closing))


# ------------------------------------------------------------------------------------------ mi_matrix
def tr_mi_matrix(tree):
    """jc = None
    for i, (X, Y) in enumerate(zip(Xs, Ys)):
        jc_i = joint_counts(X, Y, np.max(n_x), np.max(n_y))
        if not hasattr(jc, 'shape'): jc = jc_i
        else:  if jc.shape != jc_i.shape: raise ... ;  jc += jc_i
    mi = mutual_information(jc);  if normalize: mi = channel_capacity_normalization(mi, n_x, n_y);  return mi"""
    fn = find_func(tree, "mi_matrix", REL_MI)
    check_sig(fn, ["Xs", "Ys", "n_x", "n_y", "normalize"], ["True"])
    b = [s for s in strip_doc(fn.body) if not is_log_call(s)]
    if len(b) != 5 or U(b[0]) != "jc = None":
        reject(fn, "expected jc = None; the pooling loop; mutual_information; normalisation; return")
    lp = b[1]
    if not (isinstance(lp, ast.For) and not lp.orelse and U(lp.target) == "(i, (X, Y))"
            and U(lp.iter) == "enumerate(zip(Xs, Ys))"):
        reject(lp, "expected `for i, (X, Y) in enumerate(zip(Xs, Ys)):`")
    body = [s for s in lp.body if not is_log_call(s)]
    if len(body) != 2:
        reject(lp, "expected the joint_counts call and the accumulation in the loop")
    c = body[0]
    ok = isinstance(c, ast.Assign) and len(c.targets) == 1 and is_name(c.targets[0], "jc_i") \
        and isinstance(c.value, ast.Call) and is_name(c.value.func, "joint_counts") and len(c.value.args) == 4 \
        and not c.value.keywords and is_name(c.value.args[0], "X") and is_name(c.value.args[1], "Y")
    if not ok:
        reject(c, "expected jc_i = joint_counts(X, Y, <n>, <m>)")
    binds = []
    names = []
    for a, tmp, want in zip(c.value.args[2:], ("mx_", "my_"), ("n_x", "n_y")):
        if not (isinstance(a, ast.Call) and U(a.func) == "np.max" and len(a.args) == 1 and not a.keywords
                and is_name(a.args[0], want)):
            reject(a, "expected np.max(%s) as the state count" % want)
        binds.append("obind (np_max_s %s) (fun %s =>" % (want, tmp))
        names.append(tmp)
    binds.append("obind (gen_joint_counts X (Some Y) (Some %s) (Some %s)) (fun jc_i =>" % tuple(names))
    a = body[1]
    if not (isinstance(a, ast.If) and U(a.test) == "not hasattr(jc, 'shape')" and len(a.body) == 1
            and U(a.body[0]) == "jc = jc_i" and len(a.orelse) == 2):
        reject(a, "expected `if not hasattr(jc, 'shape'): jc = jc_i else: <shape test>; jc += jc_i`")
    g, add = a.orelse
    if not (isinstance(g, ast.If) and not g.orelse and is_raise(g.body)
            and U(g.test) in ("jc.shape != jc_i.shape", "jc_i.shape != jc.shape")):
        reject(g, "expected `if jc.shape != jc_i.shape: raise ...`")
    if U(add) != "jc += jc_i":
        reject(add, "expected jc += jc_i")
    if U(b[2]) != "mi = mutual_information(jc)":
        reject(b[2], "expected mi = mutual_information(jc)")
    if U(b[3]) != "if normalize:\n    mi = channel_capacity_normalization(mi, n_x, n_y)":
        reject(b[3], "expected the optional channel_capacity_normalization(mi, n_x, n_y)")
    if U(b[4]) != "return mi":
        reject(b[4], "expected return mi")
    t1 = ("(* mi_matrix: the pooled table handed to mutual_information, then the whole function *)\n"
          "Definition gen_mi_matrix_counts (Xs Ys : list ndarr) (n_x n_y : Z + list Z) : option tbl4 :=\n"
          "  obind (for_each (combine Xs Ys) (fun jc XY_ => let '(X, Y) := XY_ in\n    %s\n"
          "    match jc with\n    | None => Some (Some jc_i)\n"
          "    | Some jc => if negb (shape4t_eqb (shape4t jc) (shape4t jc_i)) then None else Some (Some (add4 jc jc_i))\n"
          "    end)))) None) (fun jc => jc).\n" % "\n    ".join(binds))
    t2 = ("Definition gen_mi_matrix (Xs Ys : list ndarr) (n_x n_y : Z + list Z) (normalize : bool) : option (list (list R)) :=\n"
          "  obind (gen_mi_matrix_counts Xs Ys n_x n_y) (fun jc =>\n  let mi := gen_mutual_information jc in\n"
          "  if normalize then gen_channel_capacity_normalization mi n_x n_y else Some mi).\n")
    return t1 + "\n" + t2


# ------------------------------------------------------------------------------------------ weighted_mi
def full_slice(x):
    return isinstance(x, ast.Slice) and x.lower is None and x.upper is None and x.step is None


class Wexpr:
    """typed array expressions of weighted_mi.  Types: (elem, rank) with elem in Z Q B R; ("Zs",) integer
    scalar; ("nat",) index; ("pair",) a (u, v) tuple; ("pairs",) list of them; ("layers",) np.dstack of
    boolean matrices held layer by layer; ("Qcol",) w[:, None]; ("QG",) meshgrid tuple; ("QG", 3) array of them"""

    def __init__(self):
        self.ty = {"features": ("Z", 2), "weights": ("Q", 1), "max_n_fstates": ("Zs",)}
        self.lets = []
        self.zeros_like = {}
        self.len_of = {"mi_mtx": "(dim1 features)"}

    def bind(self, name, term, ty):
        if name in ("features", "weights", "max_n_fstates", "np", "itertools"):
            reject(ast.Name(id=name), "rebinding of %s in the core of weighted_mi" % name)
        self.lets.append("let %s := %s in" % (name, term))
        self.ty[name] = ty
        self.zeros_like.pop(name, None)

    def comp(self, e, outer):
        if not (isinstance(e, ast.ListComp) and len(e.generators) == 1):
            reject(e, "expected a list comprehension with one generator")
        g = e.generators[0]
        if g.ifs or g.is_async or not is_name(g.target):
            reject(e, "unsupported comprehension")
        v, it = g.target.id, g.iter
        if v in self.ty:
            reject(e, "comprehension variable %s shadows a name" % v)
        if isinstance(it, ast.Call) and is_name(it.func, "range") and len(it.args) == 1 and not it.keywords:
            a = it.args[0]
            if isinstance(a, ast.Call) and is_name(a.func, "len") and len(a.args) == 1 and is_name(a.args[0]) \
                    and a.args[0].id in self.len_of:
                lst, vty = "(seq 0 %s)" % self.len_of[a.args[0].id], ("nat",)
            elif is_name(a) and self.ty.get(a.id) == ("Zs",):
                lst, vty = "(zrange %s)" % a.id, ("Zs",)
            else:
                reject(e, "unsupported range(...) in a comprehension")
        elif is_name(it) and self.ty.get(it.id) == ("pairs",):
            lst, vty = it.id, ("pair",)
        else:
            reject(e, "unsupported iterable in a comprehension")
        self.ty[v] = vty
        body, bty = self.ex(e.elt)
        del self.ty[v]
        term = "map (fun %s => %s) %s" % (v, body, lst)
        if outer == "np.vstack" and bty == ("Q", 1):
            return term, ("Q", 2)
        if outer == "np.dstack" and bty == ("B", 2):
            return term, ("layers",)
        if outer == "np.array" and bty == ("Q", 2):
            return term, ("Q", 3)
        if outer == "np.array" and bty == ("QG",):
            return term, ("QG", 3)
        reject(e, "%s of a list of %s" % (outer, bty))

    def ex(self, e):
        if is_name(e):
            if e.id not in self.ty:
                reject(e, "unknown name %s" % e.id)
            return e.id, self.ty[e.id]
        if isinstance(e, ast.Subscript):
            a, ta = self.ex(e.value)
            sl = e.slice.elts if isinstance(e.slice, ast.Tuple) else [e.slice]
            if ta == ("pair",) and len(sl) == 1 and int_const(sl[0]) in (0, 1):
                return "(%s %s)" % ("fst" if int_const(sl[0]) == 0 else "snd", a), ("Zs",)
            if ta == ("Z", 2) and len(sl) == 2 and full_slice(sl[0]):
                i, ti = self.ex(sl[1])
                if ti == ("nat",):
                    return "(col_z %s %s)" % (a, i), ("Z", 1)
            if ta == ("Q", 2) and len(sl) == 2 and full_slice(sl[0]):
                k, tk = self.ex(sl[1])
                if tk == ("Zs",):
                    return "(col_q %s %s)" % (a, k), ("Q", 1)
            if ta == ("layers",) and len(sl) == 3 and full_slice(sl[0]) and full_slice(sl[1]):
                k, tk = self.ex(sl[2])
                if tk == ("Zs",):
                    return "(sel_last %s %s)" % (a, k), ("B", 2)
            if ta == ("Q", 1) and len(sl) == 2 and full_slice(sl[0]) and isinstance(sl[1], ast.Constant) \
                    and sl[1].value is None:
                return a, ("Qcol",)
            if ta == ("QG", 3) and len(sl) == 4 and full_slice(sl[0]) and full_slice(sl[2]) and full_slice(sl[3]) \
                    and int_const(sl[1]) in (0, 1):
                return "(map %s %s)" % ("fst" if int_const(sl[1]) == 0 else "snd", a), ("Q", 3)
            reject(e, "unsupported subscript on %s" % (ta,))
        if isinstance(e, ast.Attribute) and e.attr == "T":
            a, ta = self.ex(e.value)
            if ta == ("Q", 2):
                return "(transpose_q %s)" % a, ta
            reject(e, ".T of %s" % (ta,))
        if isinstance(e, ast.BinOp) and isinstance(e.op, ast.Mult):
            a, ta = self.ex(e.left)
            b, tb = self.ex(e.right)
            if ta == ("B", 2) and tb == ("Qcol",):
                return "(zip2 (fun x_ y_ => map (fun a_ => (ind a_ * y_)%%Q) x_) %s %s)" % (a, b), ("Q", 2)
            if ta == ("Q", 3) and tb == ("Q", 3):
                return "zip2 (zip2 (zip2 Qmult)) %s %s" % (a, b), ("Q", 3)
            reject(e, "unsupported product of %s and %s" % (ta, tb))
        if isinstance(e, ast.Compare) and len(e.ops) == 1 and isinstance(e.ops[0], ast.Eq):
            a, ta = self.ex(e.left)
            b, tb = self.ex(e.comparators[0])
            if ta == ("Z", 2) and tb == ("Zs",):
                return "map (map (fun a_ => (a_ =? %s)%%Z)) %s" % (b, a), ("B", 2)
            reject(e, "unsupported comparison")
        if isinstance(e, ast.Call):
            f = U(e.func)
            kw = {k.arg: k.value for k in e.keywords}
            if f in ("np.vstack", "np.dstack", "np.array") and len(e.args) == 1 and not kw:
                return self.comp(e.args[0], f)
            if f == "np.bincount" and len(e.args) == 1 and set(kw) == {"weights", "minlength"}:
                a, ta = self.ex(e.args[0])
                w, tw = self.ex(kw["weights"])
                m, tm = self.ex(kw["minlength"])
                if (ta, tw, tm) == (("Z", 1), ("Q", 1), ("Zs",)):
                    return "np_bincount_w %s %s %s" % (a, w, m), ("Q", 1)
                reject(e, "np.bincount of %s, weights %s, minlength %s" % (ta, tw, tm))
            if f == "np.matmul" and len(e.args) == 2 and not kw:
                a, ta = self.ex(e.args[0])
                b, tb = self.ex(e.args[1])
                if (ta, tb) == (("Q", 2), ("B", 2)):
                    return "matmul_qb %s %s" % (a, b), ("Q", 2)
                reject(e, "np.matmul of %s and %s" % (ta, tb))
            if f == "np.meshgrid" and len(e.args) == 2 and not kw:
                a, ta = self.ex(e.args[0])
                b, tb = self.ex(e.args[1])
                if (ta, tb) == (("Q", 1), ("Q", 1)):
                    return "(meshgrid_xy0q %s %s, meshgrid_xy1q %s %s)" % (a, b, a, b), ("QG",)
                reject(e, "np.meshgrid of %s and %s" % (ta, tb))
            if f == "list" and len(e.args) == 1 and not kw and isinstance(e.args[0], ast.Call) \
                    and U(e.args[0].func) == "itertools.product" and len(e.args[0].args) == 2 and not e.args[0].keywords:
                rs = []
                for a in e.args[0].args:
                    if not (isinstance(a, ast.Call) and U(a.func) == "np.arange" and len(a.args) == 1 and not a.keywords
                            and is_name(a.args[0]) and self.ty.get(a.args[0].id) == ("Zs",)):
                        reject(a, "expected np.arange(<count>)")
                    rs.append("(zrange %s)" % a.args[0].id)
                return "list_prod %s %s" % tuple(rs), ("pairs",)
            if isinstance(e.func, ast.Attribute) and e.func.attr == "sum" and not e.args and set(kw) == {"axis"}:
                a, ta = self.ex(e.func.value)
                if ta == ("R", 3) and int_const(kw["axis"]) == 0:
                    return "sum_axis0_R %s" % a, ("R", 2)
                reject(e, ".sum(axis=%s) of %s" % (U(kw["axis"]), ta))
        reject(e, "unsupported expression in weighted_mi")

    def ufunc(self, c):
        f = U(c.func)
        kw = {k.arg: k.value for k in c.keywords}
        if "out" not in kw or not is_name(kw["out"]):
            reject(c, "%s as a statement needs out=NAME" % f)
        out = kw["out"].id

        def mask(m, names):
            if not (isinstance(m, ast.Compare) and is_name(m.left) and m.left.id in names):
                reject(m, "the mask must compare one of the operands with a literal")
            return elem_cmp(m, names[m.left.id], "Qp")
        z3 = "zip2 (zip2 (zip2 (%s))) %s %s"
        if f == "np.divide" and len(c.args) == 2 and set(kw) <= {"where", "out"}:
            a, ta = self.ex(c.args[0])
            b, tb = self.ex(c.args[1])
            if not (ta == tb == ("Q", 3) and is_name(c.args[0]) and is_name(c.args[1])):
                reject(c, "np.divide of %s by %s" % (ta, tb))
            if self.zeros_like.get(out) != a:
                reject(c, "out=%s must be np.zeros_like(%s)" % (out, a))
            val = "(a_ / b_)%Q"
            if "where" in kw:
                val = "where_out %s %s 0%%Q" % (mask(kw["where"], {a: "a_", b: "b_"}), val)
            self.bind(out, z3 % ("fun a_ b_ => %s" % val, a, b), ("Q", 3))
            return
        if f == "np.log" and len(c.args) == 1 and set(kw) == {"where", "out"}:
            a, ta = self.ex(c.args[0])
            if not (ta == ("Q", 3) and is_name(c.args[0])):
                reject(c, "np.log of %s" % (ta,))
            if out != a:
                reject(c, "np.log(X, where=.., out=X) expected (masked cells keep their value)")
            self.bind(out, "map (map (map (fun a_ => where_out %s (ln (Q2R a_)) (Q2R a_)))) %s"
                      % (mask(kw["where"], {a: "a_"}), a), ("R", 3))
            return
        if f.startswith("np.log"):
            reject(c, "only the natural logarithm np.log, with where= and out=, is in the vocabulary")
        if f == "np.multiply" and len(c.args) == 2 and set(kw) == {"out"}:
            a, ta = self.ex(c.args[0])
            b, tb = self.ex(c.args[1])
            if (ta, tb) == (("Q", 3), ("R", 3)) and out == b:
                self.bind(out, z3 % ("fun a_ b_ => (Q2R a_ * b_)%R", a, b), ("R", 3))
                return
            if (ta, tb) == (("R", 3), ("Q", 3)) and out == a:
                self.bind(out, z3 % ("fun a_ b_ => (a_ * Q2R b_)%R", a, b), ("R", 3))
                return
            reject(c, "np.multiply of %s and %s into %s" % (ta, tb, out))
        reject(c, "unsupported ufunc statement")


W_ASSERTS = {"len(features.shape) == 2": None, "len(weights.shape) == 1": None,
             "np.all(weights >= 0)": "np_all (map (fun a_ => (Qle_bool 0 a_)) weights)",
             "np.sum(weights)": "negb (Qeq_bool (qsum weights) 0)"}
W_SKIP_ASSERTS = ("not np.any(np.isnan(mi_mats))", "not np.any(np.isinf(mi_mtx))")
FULL_DTYPE = {"'int16'": "wrap I16 (%s)", "'int32'": "wrap I32 (%s)", "'int64'": "wrap I64 (%s)", "'int'": "wrap I64 (%s)",
              "'int8'": "wrap I8 (%s)"}


def tr_weighted_mi(tree):
    """prologue (exact statement forms): weights = np.array(weights, copy=True); the four asserts; the length
    test; the renormalisation `if weights.sum() != 1: weights = weights / np.linalg.norm(weights, ord=1)`; the
    default np.full(features.shape[1], features.max() + 1, dtype=...) of n_feature_states; its length test;
    mi_mtx = np.zeros((F, F), dtype=float); max_n_fstates = max(n_feature_states).
    core (class Wexpr): assignments and the three masked-ufunc statements up to mi_mtx = mi_mats.sum(axis=0).
    epilogue: optional channel_capacity_normalization(mi_mtx, n_feature_states, n_feature_states); np.clip; return"""
    fn = find_func(tree, "weighted_mi", REL_MI)
    check_sig(fn, ["features", "weights", "n_feature_states", "normalize"], ["None", "True"])
    b = strip_doc(fn.body)
    if not b or U(b[0]) != "weights = np.array(weights, copy=True)":
        reject(fn, "expected weights = np.array(weights, copy=True) first")
    L = []
    i = 1
    seen = set()
    while i < len(b) and isinstance(b[i], ast.Assert):
        t = U(b[i].test)
        if t not in W_ASSERTS or t in seen:
            reject(b[i], "unsupported assert in the prologue of weighted_mi")
        seen.add(t)
        if W_ASSERTS[t] is not None:
            L.append("if negb (%s) then None else" % W_ASSERTS[t])
        i += 1
    if "np.all(weights >= 0)" not in seen:
        reject(fn, "the prologue must assert np.all(weights >= 0)")
    want = ["weights.shape[0] != features.shape[0]", None, None, "n_feature_states.shape[0] != features.shape[1]"]
    if len(b) < i + 6:
        reject(fn, "weighted_mi: prologue too short")
    s = b[i]
    if not (isinstance(s, ast.If) and U(s.test) in (want[0], "features.shape[0] != weights.shape[0]") and not s.orelse
            and is_raise(s.body)):
        reject(s, "expected `if weights.shape[0] != features.shape[0]: raise ...`")
    L.append("if negb (length weights =? dim0 features)%nat then None else")
    s = b[i + 1]
    if U(s) != "if weights.sum() != 1:\n    weights = weights / np.linalg.norm(weights, ord=1)":
        reject(s, "expected the renormalisation `if weights.sum() != 1: weights = weights / np.linalg.norm(weights, ord=1)`")
    L.append("let weights := if negb (Qeq_bool (qsum weights) 1) then map (fun a_ => (a_ / qsum (map Qabs weights))%Q) weights "
             "else weights in")
    s = b[i + 2]
    ok = isinstance(s, ast.If) and U(s.test) == "n_feature_states is None" and len(s.body) == 1 and len(s.orelse) == 1 \
        and U(s.orelse[0]) == "n_feature_states = np.array(n_feature_states)" and isinstance(s.body[0], ast.Assign) \
        and is_name(s.body[0].targets[0], "n_feature_states") and isinstance(s.body[0].value, ast.Call) \
        and U(s.body[0].value.func) == "np.full" and len(s.body[0].value.args) == 2 \
        and U(s.body[0].value.args[0]) == "features.shape[1]"
    if not ok:
        reject(s, "expected the default np.full(features.shape[1], features.max() + 1, dtype=...) of n_feature_states")
    v = s.body[0].value
    kw = {k.arg: k.value for k in v.keywords}
    a = v.args[1]
    if not (isinstance(a, ast.BinOp) and isinstance(a.op, ast.Add) and U(a.left) == "features.max()" and int_const(a.right) is not None):
        reject(s, "expected features.max() + 1 as the default state count")
    val = "m_ + %d" % int_const(a.right)
    if set(kw) - {"dtype"}:
        reject(s, "unsupported keyword of np.full")
    if "dtype" in kw:
        if U(kw["dtype"]) not in FULL_DTYPE:
            reject(s, "unsupported dtype of the default state counts")
        val = FULL_DTYPE[U(kw["dtype"])] % val
    else:
        val = "(%s)%%Z" % val
    L.append("obind (match n_feature_states with Some l_ => Some l_ | None => option_map (fun m_ => np_full (dim1 features) "
             "(%s)) (zmax_list (concat features)) end) (fun n_feature_states =>" % val)
    s = b[i + 3]
    if not (isinstance(s, ast.If) and U(s.test) == want[3] and not s.orelse and is_raise(s.body)):
        reject(s, "expected `if n_feature_states.shape[0] != features.shape[1]: raise ...`")
    L.append("if negb (length n_feature_states =? dim1 features)%nat then None else")
    if U(b[i + 4]) != "mi_mtx = np.zeros((features.shape[1], features.shape[1]), dtype=float)":
        reject(b[i + 4], "expected mi_mtx = np.zeros((features.shape[1], features.shape[1]), dtype=float)")
    if U(b[i + 5]) != "max_n_fstates = max(n_feature_states)":
        reject(b[i + 5], "expected max_n_fstates = max(n_feature_states)")
    L.append("obind (zmax_list n_feature_states) (fun max_n_fstates =>")
    w = Wexpr()
    j = i + 6
    done = False
    while j < len(b) and not done:
        s = b[j]
        j += 1
        if isinstance(s, ast.Assert):
            if U(s.test) not in W_SKIP_ASSERTS:
                reject(s, "unsupported assert in weighted_mi")
            continue
        if isinstance(s, ast.Assign) and len(s.targets) == 1 and is_name(s.targets[0]):
            name, v = s.targets[0].id, s.value
            if isinstance(v, ast.Call) and U(v.func) == "np.zeros_like" and len(v.args) == 1 and not v.keywords \
                    and is_name(v.args[0]) and v.args[0].id in w.ty:
                w.zeros_like[name] = v.args[0].id
                continue
            term, ty = w.ex(v)
            w.bind(name, term, ty)
            if name == "mi_mtx":
                if ty != ("R", 2):
                    reject(s, "mi_mtx of type %s" % (ty,))
                done = True
            continue
        if isinstance(s, ast.Expr) and isinstance(s.value, ast.Call):
            w.ufunc(s.value)
            continue
        reject(s, "unsupported statement in the core of weighted_mi")
    if not done:
        reject(fn, "no mi_mtx = <...>.sum(axis=0) found")
    rest = [s for s in b[j:] if not (isinstance(s, ast.Assert) and U(s.test) in W_SKIP_ASSERTS)]
    if len(rest) != 3:
        reject(fn, "expected normalisation, np.clip and return after the sum")
    if U(rest[0]) != "if normalize:\n    mi_mtx = channel_capacity_normalization(mi_mtx, n_feature_states, n_feature_states)":
        reject(rest[0], "expected the optional channel_capacity_normalization(mi_mtx, n_feature_states, n_feature_states)")
    c = rest[1]
    ok = isinstance(c, ast.Expr) and isinstance(c.value, ast.Call) and U(c.value.func) == "np.clip" \
        and len(c.value.args) == 1 and is_name(c.value.args[0], "mi_mtx")
    if ok:
        kw = {k.arg: U(k.value) for k in c.value.keywords}
        ok = kw == {"a_min": "0", "a_max": "np.inf", "out": "mi_mtx"}
    if not ok:
        reject(c, "expected np.clip(mi_mtx, a_min=0, a_max=np.inf, out=mi_mtx)")
    if U(rest[2]) != "return mi_mtx":
        reject(rest[2], "expected return mi_mtx")
    core = ("(* weighted_mi: the probability tables and the summed cells, then the whole function *)\n"
            "Definition gen_weighted_mi_core (features : list (list Z)) (weights : list Q) (max_n_fstates : Z) : list (list R) :=\n"
            "  %s\n  mi_mtx.\n" % "\n  ".join(w.lets))
    L += ["let mi_mtx := gen_weighted_mi_core features weights max_n_fstates in",
          "obind (if normalize then gen_channel_capacity_normalization mi_mtx (inr n_feature_states) (inr n_feature_states) "
          "else Some mi_mtx) (fun mi_mtx =>",
          "let mi_mtx := map (map (fun a_ => Rmax 0 a_)) mi_mtx in", "Some mi_mtx)))."]
    full = ("Definition gen_weighted_mi (features : list (list Z)) (weights : list Q) (n_feature_states : option (list Z)) "
            "(normalize : bool) : option (list (list R)) :=\n  %s\n" % "\n  ".join(L))
    return core + "\n" + full


# ------------------------------------------------------------------------------------------ entropy.py
def tr_shannon_entropy(tree):
    """p = np.asarray(p)
    if normalize: p = np.copy(p) / np.sum(p)
    L = np.log(p, where=(p <op> c), out=np.zeros(np.shape(p), dtype=float))
    H = -np.sum(p * L);  return H            (p is read as the flat list of its cells)"""
    fn = find_func(tree, "shannon_entropy", REL_EN)
    check_sig(fn, ["p", "normalize"], ["True"])
    b = strip_doc(fn.body)
    # the argument is first read as a plain array of cells: with an np.matrix (what `.todense()` returns) left as it
    # is, `p * log_p` below would be a matrix product.  On the flat list of cells the statement is the identity.
    if not b or U(b[0]) != "p = np.asarray(p)":
        reject(fn, "expected `p = np.asarray(p)` first (an np.matrix argument would turn p * log p into a matrix product)")
    b = b[1:]
    if len(b) != 4:
        reject(fn, "expected p = np.asarray(p); normalisation; masked log; H; return")
    if U(b[0]) not in ("if normalize:\n    p = np.copy(p) / np.sum(p)", "if normalize:\n    p = p / np.sum(p)"):
        reject(b[0], "expected `if normalize: p = np.copy(p) / np.sum(p)`")
    lines = ["let p := if normalize then map (fun a_ => (a_ / Rsum p)%R) p else p in"]
    s = b[1]
    ok = isinstance(s, ast.Assign) and len(s.targets) == 1 and is_name(s.targets[0]) and isinstance(s.value, ast.Call) \
        and U(s.value.func) == "np.log" and len(s.value.args) == 1 and is_name(s.value.args[0], "p")
    if not ok:
        if isinstance(s, ast.Assign) and isinstance(s.value, ast.Call) and U(s.value.func).startswith("np.log"):
            reject(s, "only the natural logarithm np.log is in the vocabulary")
        reject(s, "expected L = np.log(p, where=..., out=...)")
    lname = s.targets[0].id
    if lname in ("p", "normalize"):
        reject(s, "rebinding of an argument")
    kws = {k.arg: k.value for k in s.value.keywords}
    if set(kws) != {"where", "out"}:
        reject(s, "np.log(p) needs both where= and out= (log of 0 is -inf; unmasked cells without out= are "
                  "uninitialised)")
    m = kws["where"]
    if not (isinstance(m, ast.Compare) and is_name(m.left, "p")):
        reject(m, "the mask must be a comparison on p")
    env = Env(p=("R", 1))
    init = out_zeros(env, kws["out"], "p", "R")
    lines.append("let %s := map (fun a_ => where_out (%s) (ln a_) %s) p in" % (lname, elem_cmp(m, "a_", "R"), init))
    h = b[2]
    want = ("-np.sum(p * %s)" % lname, "-np.sum(%s * p)" % lname)
    if not (isinstance(h, ast.Assign) and len(h.targets) == 1 and is_name(h.targets[0]) and U(h.value) in want):
        reject(h, "expected H = -np.sum(p * %s)" % lname)
    hn = h.targets[0].id
    a, c = ("p", lname) if U(h.value) == want[0] else (lname, "p")
    lines.append("let %s := (- Rsum (zip2 Rmult %s %s))%%R in" % (hn, a, c))
    if not (isinstance(b[3], ast.Return) and is_name(b[3].value, hn)):
        reject(b[3], "expected return %s" % hn)
    lines.append("%s." % hn)
    return ("(* shannon_entropy *)\nDefinition gen_shannon_entropy (p : list R) (normalize : bool) : R :=\n  %s\n"
            % "\n  ".join(lines))


class Ieee:
    """array expressions over IEEE doubles (xr): names of real input arrays are lifted with XFin"""

    def __init__(self, reals, rank=1):
        self.reals = set(reals)
        self.xs = set()
        self.rank = rank

    def arr(self, e):
        r = self.rank
        if is_name(e):
            if e.id in self.xs:
                return e.id
            if e.id in self.reals:
                return "(%s %s)" % (nest("map", r - 1, "map XFin"), e.id)
            reject(e, "unknown array %s" % e.id)
        if isinstance(e, ast.BinOp) and type(e.op) in (ast.Mult, ast.Div, ast.Add):
            f = {ast.Mult: "x_mul", ast.Div: "x_div", ast.Add: "x_add"}[type(e.op)]
            return "(%s %s %s)" % (nest("zip2", r - 1, "zip2 %s" % f), self.arr(e.left), self.arr(e.right))
        if isinstance(e, ast.Call) and U(e.func) == "np.log" and len(e.args) == 1 and not e.keywords:
            return "(%s %s)" % (nest("map", r - 1, "map x_log"), self.arr(e.args[0]))
        if isinstance(e, ast.Call) and U(e.func).startswith("np.log"):
            reject(e, "only the natural logarithm np.log is in the vocabulary")
        reject(e, "unsupported array expression")


def tr_kl_divergence(tree, rank=1):
    """(translated once for 1-D and once for 2-D arguments: `axis_sum` is resolved from the rank)
    P = np.array(P); Q = np.array(Q)
    if P.shape != Q.shape: raise
    for M in (P, Q): if len(np.where(M < c)[0]) > 0: raise ...
    with warnings.catch_warnings(): warnings.simplefilter(...); L = <IEEE array expression of P, Q>
    L[np.where(np.isnan(L))] = 0
    axis_sum = 0; if len(P.shape) > 1: axis_sum = 1       (1-D arguments: axis 0)
    D = np.sum(L, axis=axis_sum);  D /= np.log(base);  return D"""
    fn = find_func(tree, "kl_divergence", REL_EN)
    check_sig(fn, ["P", "Q", "base"], ["2"])
    b = strip_doc(fn.body)
    if len(b) < 4 or U(b[0]) != "P = np.array(P)" or U(b[1]) != "Q = np.array(Q)":
        reject(fn, "expected P = np.array(P); Q = np.array(Q) first")
    lines = []
    s = b[2]
    if not (isinstance(s, ast.If) and U(s.test) in ("P.shape != Q.shape", "Q.shape != P.shape") and not s.orelse
            and is_raise(s.body)):
        reject(s, "expected `if P.shape != Q.shape: raise`")
    lines.append("if negb (length P =? length Q)%nat then None else" if rank == 1 else
                 "if negb ((length P =? length Q)%nat && (dim1 P =? dim1 Q)%nat) then None else")
    s = b[3]
    ok = isinstance(s, ast.For) and is_name(s.target) and not s.orelse and isinstance(s.iter, ast.Tuple) \
        and len(s.body) == 1 and isinstance(s.body[0], ast.If) and not s.body[0].orelse and is_raise(s.body[0].body)
    if not ok:
        reject(s, "expected `for M in (P, Q): if <negative entries>: raise ...`")
    mv = s.target.id
    t = s.body[0].test
    cmp_ = None
    if isinstance(t, ast.Compare) and len(t.ops) == 1 and isinstance(t.ops[0], ast.Gt) and int_const(t.comparators[0]) == 0 \
            and isinstance(t.left, ast.Call) and is_name(t.left.func, "len") and len(t.left.args) == 1:
        w = t.left.args[0]
        if isinstance(w, ast.Subscript) and int_const(w.slice) == 0 and isinstance(w.value, ast.Call) \
                and U(w.value.func) == "np.where" and len(w.value.args) == 1 and isinstance(w.value.args[0], ast.Compare) \
                and is_name(w.value.args[0].left, mv):
            cmp_ = w.value.args[0]
    if cmp_ is None and isinstance(t, ast.Call) and U(t.func) == "np.any" and len(t.args) == 1 \
            and isinstance(t.args[0], ast.Compare) and is_name(t.args[0].left, mv):
        cmp_ = t.args[0]
    if cmp_ is None:
        reject(s, "expected len(np.where(M < 0)[0]) > 0 as the rejection test")
    for x in s.iter.elts:
        if not (is_name(x) and x.id in ("P", "Q")):
            reject(s, "the validation loop must run over P and Q")
        lines.append("if existsb (fun a_ => %s) %s then None else" % (
            elem_cmp(cmp_, "a_", "R"), x.id if rank == 1 else "(concat %s)" % x.id))
    if sorted(x.id for x in s.iter.elts) != ["P", "Q"]:
        reject(s, "the validation loop must run over both P and Q")
    ie = Ieee(["P", "Q"], rank)
    consts = {}
    ret = None
    for s in b[4:]:
        if ret is not None:
            reject(s, "statement after return")
        if isinstance(s, ast.With):
            if [U(i.context_expr) for i in s.items] != ["warnings.catch_warnings()"]:
                reject(s, "only `with warnings.catch_warnings():` is transparent")
            inner = [x for x in s.body if not (isinstance(x, ast.Expr) and isinstance(x.value, ast.Call)
                                               and U(x.value.func) == "warnings.simplefilter")]
        else:
            inner = [s]
        for x in inner:
            if isinstance(x, ast.Return):
                if not (is_name(x.value) and x.value.id in ie.xs and x.value.id in consts.get("__scalars__", ())):
                    reject(x, "expected `return <divergence>`")
                ret = x.value.id
                continue
            if isinstance(x, ast.Assign) and len(x.targets) == 1:
                tg, v = x.targets[0], x.value
                if is_name(tg) and int_const(v) is not None:
                    consts[tg.id] = int_const(v)
                    continue
                if isinstance(tg, ast.Subscript) and is_name(tg.value) and tg.value.id in ie.xs \
                        and U(tg.slice) == "np.where(np.isnan(%s))" % tg.value.id and int_const(v) == 0:
                    lines.append("let %s := %s %s in" % (
                        tg.value.id, nest("map", rank - 1, "map (fun a_ => if x_isnan a_ then XFin 0 else a_)"), tg.value.id))
                    continue
                if is_name(tg) and isinstance(v, ast.Call) and U(v.func) == "np.sum" and len(v.args) == 1 \
                        and is_name(v.args[0]) and v.args[0].id in ie.xs and len(v.keywords) == 1 \
                        and v.keywords[0].arg == "axis":
                    ax = v.keywords[0].value
                    k = consts.get(ax.id) if is_name(ax) else int_const(ax)
                    if k != rank - 1 and k != -1:
                        reject(x, "np.sum over axis %s of a rank-%d array" % (k, rank))
                    lines.append("let %s := %s %s in" % (tg.id, "x_sum" if rank == 1 else "map x_sum", v.args[0].id))
                    ie.xs.add(tg.id)
                    consts.setdefault("__scalars__", set()).add(tg.id)
                    continue
                if is_name(tg) and tg.id not in ("P", "Q", "base"):
                    lines.append("let %s := %s in" % (tg.id, ie.arr(v).strip("()") if False else ie.arr(v)[1:-1]))
                    ie.xs.add(tg.id)
                    continue
            if isinstance(x, ast.If) and U(x.test) == "len(P.shape) > 1" and not x.orelse:
                if rank > 1:    # statically true for 2-D arguments, false for 1-D ones
                    for y in x.body:
                        if not (isinstance(y, ast.Assign) and len(y.targets) == 1 and is_name(y.targets[0])
                                and int_const(y.value) is not None):
                            reject(y, "only NAME = <int> under `if len(P.shape) > 1`")
                        consts[y.targets[0].id] = int_const(y.value)
                continue
            if isinstance(x, ast.AugAssign) and isinstance(x.op, ast.Div) and is_name(x.target) \
                    and x.target.id in consts.get("__scalars__", ()):
                v = x.value
                if not (isinstance(v, ast.Call) and U(v.func) == "np.log" and len(v.args) == 1 and is_name(v.args[0], "base")):
                    if isinstance(v, ast.Call) and U(v.func).startswith("np.log"):
                        reject(x, "only the natural logarithm np.log is in the vocabulary")
                    reject(x, "expected D /= np.log(base)")
                lines.append("let %s := x_div %s (x_log (XFin base)) in" % (x.target.id, x.target.id) if rank == 1 else
                             "let %s := map (fun a_ => x_div a_ (x_log (XFin base))) %s in" % (x.target.id, x.target.id))
                continue
            reject(x, "unsupported statement in kl_divergence")
    if ret is None:
        reject(fn, "no return")
    lines.append("Some %s." % ret)
    if rank == 1:
        return ("(* kl_divergence, 1-D arguments *)\nDefinition gen_kl_divergence (P Q : list R) (base : R) : option xr :=\n  %s\n"
                % "\n  ".join(lines))
    return ("(* kl_divergence, 2-D arguments: one divergence per row *)\nDefinition gen_kl_divergence_2d (P Q : list (list R)) "
            "(base : R) : option (list xr) :=\n  %s\n" % "\n  ".join(lines))


# ------------------------------------------------------------------------------------------ driver
def translate(repo):
    tree, _ = parse_file(repo, REL_MI)
    mi = ["(* GENERATED by translator/tr_infopy.py from %s -- do not edit *)" % REL_MI] + HEADER
    mi += [tr_joint_counts(tree), tr_mutual_information(tree), tr_validate_states(tree),
           tr_channel_capacity(tree), tr_mi_matrix(tree), tr_weighted_mi(tree)]
    tree, _ = parse_file(repo, REL_EN)
    en = ["(* GENERATED by translator/tr_infopy.py from %s -- do not edit *)" % REL_EN] + HEADER
    en += [tr_shannon_entropy(tree), tr_kl_divergence(tree, 1), tr_kl_divergence(tree, 2)]
    return {"Gen/MutualInfoGen.v": "\n".join(mi), "Gen/EntropyGen.v": "\n".join(en)}


if __name__ == "__main__":
    import sys
    out = translate(sys.argv[1] if len(sys.argv) > 1 else "/repo")
    for k in sorted(out):
        print("(* ==== %s ==== *)" % k)
        print(out[k])
