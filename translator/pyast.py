"""Small fail-closed helpers shared by the Python-ast -> Gallina translators."""
import ast, os
import sys
sys.path.insert(0, os.path.join(os.path.dirname(os.path.dirname(os.path.abspath(__file__))), "harness"))
from core import TranslatorReject


def parse_file(repo, rel):
    p = os.path.join(repo, rel)
    try:
        with open(p) as f:
            src = f.read()
        return ast.parse(src), src
    except (OSError, SyntaxError) as ex:
        raise TranslatorReject("%s: cannot parse: %s" % (rel, ex))


def find_func(tree, name, rel="?", cls=None):
    body = tree.body
    if cls is not None:
        for n in body:
            if isinstance(n, ast.ClassDef) and n.name == cls:
                body = n.body
                break
        else:
            raise TranslatorReject("%s: class %s not found" % (rel, cls))
    for n in body:
        if isinstance(n, ast.FunctionDef) and n.name == name:
            return n
    raise TranslatorReject("%s: function %s not found" % (rel, name))


def reject(node, why):
    raise TranslatorReject("line %s: %s: %s" % (getattr(node, "lineno", "?"), why,
                                                  ast.dump(node)[:200] if isinstance(node, ast.AST) else node))


def strip_doc(body):
    if body and isinstance(body[0], ast.Expr) and isinstance(body[0].value, ast.Constant) \
            and isinstance(body[0].value.value, str):
        return body[1:]
    return body
