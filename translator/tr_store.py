"""enspara/ra/ra.py (save, load), enspara/util/load.py (sound_trajectory, load_as_concatenated,
shared_array_like_trj, _load_to_position), enspara/mpi/io.py (load_h5_as_striped, load_npy_as_striped)
  ->  Gen/StoreGen.v                                                          (fail-closed)

What is regenerated from the current source (every other statement of the functions is recognised
by shape / pinned as text; anything else raises TranslatorReject):

  ra.save     n_zeros  = len(str(len(array.lengths))) + 1      -> gen_n_zeros     (and the ndarray fall-back)
              t        = tag + '_' + str(i).zfill(n_zeros)     -> gen_key         (loop `for i in range(len(array))`,
                                                                                   node name=t, node[:] = array[i])
  ra.load     if len(keys) == 1                                -> gen_single_key_test
              return handle.get_node('/' + keys[0])[::stride]  -> gen_single_read  (start/stop/step of the slice)
              lengths = [(shape[0] + stride - 1) // stride ..] -> gen_load_len
              node = handle.get_node(..name=key)[::stride]     -> gen_read_row     (start/stop/step of the slice)
              end = start + len(node); concat[start:end] = node; start = end
                                                               -> gen_fill_end / _lo / _hi / _next / _start
              (the loop body must be exactly these four statements: a block-wise inner read loop is rejected)
  util.load   math.ceil(n_frames / stride)                     -> gen_sound_len
              lengths = pool.starmap(sound_trajectory, [.. for f, kw in zip(filenames, args) if 'frame' not in kw])
              + `lengths.insert(i, 1)` for the frame= files     -> gen_lac_lengths  (ordered map over the files, in
                                                                                   file order; apply_async / callbacks /
                                                                                   imap_unordered are rejected)
              [sum(lengths[0:i]) for i in range(len(lengths))] -> gen_offsets      (first component of the job tuples)
              arr[position:position+len(xyz)] = xyz            -> gen_win_lo / gen_win_hi / gen_job_write
  mpi.io      [(s[0] + stride - 1) // stride for s in ...]     -> gen_h5_global_len, gen_npy_global_len
              X[mpi.rank()::mpi.size()]  (4 places, one term)  -> gen_stripe
              end = start + len(data[::stride]); local_data[start:end] = data[::stride]; start = end
                                                               -> gen_npy_*
"""
import ast
from pyast import parse_file, find_func, reject, strip_doc
from core import TranslatorReject

RA = "enspara/ra/ra.py"
LD = "enspara/util/load.py"
IO = "enspara/mpi/io.py"
U = ast.unparse


def need(cond, node, why):
    if not cond:
        reject(node, why)


# ============================================================================ expressions
class Subst(ast.NodeTransformer):
    """replace every sub-expression whose source text is a key of `table` by the stand-in name"""

    def __init__(self, table):
        self.table = table

    def visit(self, n):
        if isinstance(n, ast.expr):
            t = U(n)
            if t in self.table:
                return ast.copy_location(ast.Name(id=self.table[t], ctx=ast.Load()), n)
        return self.generic_visit(n)


def subst(e, table):
    import copy
    return Subst(table).visit(copy.deepcopy(e))


RENAME = {"end": "end_"}        # Coq keywords
LISTS = ("LZ", "LA", "S")
CMP = {ast.Eq: "(Z.eqb %s %s)", ast.NotEq: "(negb (Z.eqb %s %s))", ast.Lt: "(Z.ltb %s %s)",
       ast.LtE: "(Z.leb %s %s)", ast.Gt: "(Z.ltb %s %s)", ast.GtE: "(Z.leb %s %s)"}


def tr(e, env, want=None):
    """Python expression -> (Gallina term, type).  Types: Z (int), Q (float, exact), B, S (str),
    LZ (list of ints), LA (sequence of opaque items)."""
    s, t = _tr(e, env)
    if want is not None and t != want:
        reject(e, "type %s where %s expected" % (t, want))
    return s, t


def _opt(e, env):
    if e is None:
        return "None"
    return "(Some %s)" % tr(e, env, "Z")[0]


def _tr(e, env):
    if isinstance(e, ast.Constant):
        v = e.value
        if type(v) is int:
            return "(%d)%%Z" % v, "Z"
        if type(v) is str:
            need(all(ord(c) < 128 for c in v), e, "non-ASCII string constant")
            return "(" + "".join("%d%%nat :: " % ord(c) for c in v) + "nil)", "S"
        reject(e, "unsupported constant")
    if isinstance(e, ast.Name):
        need(e.id in env, e, "unknown name %s" % e.id)
        return RENAME.get(e.id, e.id), env[e.id]
    if isinstance(e, ast.BinOp):
        ls, lt = _tr(e.left, env)
        rs, rt = _tr(e.right, env)
        if isinstance(e.op, ast.Add) and lt == rt == "S":
            return "(app %s %s)" % (ls, rs), "S"
        need(lt == rt == "Z", e, "arithmetic on operands of types %s, %s" % (lt, rt))
        ops = {ast.Add: "Z.add", ast.Sub: "Z.sub", ast.Mult: "Z.mul", ast.FloorDiv: "Z.div"}
        if type(e.op) in ops:
            return "(%s %s %s)" % (ops[type(e.op)], ls, rs), "Z"
        if isinstance(e.op, ast.Div):
            return "(py_truediv %s %s)" % (ls, rs), "Q"
        reject(e, "unsupported binary operator")
    if isinstance(e, ast.Compare):
        need(len(e.ops) == 1 and type(e.ops[0]) in CMP, e, "unsupported comparison")
        a, _ = tr(e.left, env, "Z")
        b, _ = tr(e.comparators[0], env, "Z")
        if isinstance(e.ops[0], (ast.Gt, ast.GtE)):
            a, b = b, a
        return CMP[type(e.ops[0])] % (a, b), "B"
    if isinstance(e, ast.Call):
        need(not e.keywords and not any(isinstance(a, ast.Starred) for a in e.args), e, "unsupported call form")
        f = U(e.func)
        if f == "len" and len(e.args) == 1:
            s, t = _tr(e.args[0], env)
            need(t in LISTS, e, "len() of a %s" % t)
            return "(zlen %s)" % s, "Z"
        if f == "str" and len(e.args) == 1:
            return "(py_str %s)" % tr(e.args[0], env, "Z")[0], "S"
        if f == "sum" and len(e.args) == 1:
            return "(zsum %s)" % tr(e.args[0], env, "LZ")[0], "Z"
        if f == "math.ceil" and len(e.args) == 1:
            return "(py_ceil %s)" % tr(e.args[0], env, "Q")[0], "Z"
        if isinstance(e.func, ast.Attribute) and e.func.attr == "zfill" and len(e.args) == 1:
            s, _ = tr(e.func.value, env, "S")
            w, _ = tr(e.args[0], env, "Z")
            return "(py_zfill %s %s)" % (w, s), "S"
        reject(e, "unsupported call")
    if isinstance(e, ast.Subscript):
        s, t = _tr(e.value, env)
        need(t in LISTS and isinstance(e.slice, ast.Slice), e, "only slices of sequences are supported")
        sl = e.slice
        return "(slice_list %s %s %s %s)" % (s, _opt(sl.lower, env), _opt(sl.upper, env), _opt(sl.step, env)), t
    reject(e, "unsupported expression")


# ============================================================================ statement helpers
def is_noise(s):
    """logger.debug(...) with harmless arguments; tick/tock = time.perf_counter()"""
    if isinstance(s, ast.Expr) and isinstance(s.value, ast.Call) and U(s.value.func) == "logger.debug":
        for n in ast.walk(s.value):
            if isinstance(n, (ast.NamedExpr, ast.Lambda, ast.ListComp, ast.GeneratorExp, ast.Await, ast.Yield)):
                reject(s, "side effects inside logger.debug")
            if isinstance(n, ast.Call) and n is not s.value and U(n.func) not in ("len", "resource.getrusage"):
                reject(s, "call inside logger.debug")
        return True
    if isinstance(s, ast.Assign) and len(s.targets) == 1 and isinstance(s.targets[0], ast.Name) \
            and s.targets[0].id in ("tick", "tock") and U(s.value) == "time.perf_counter()":
        return True
    return False


def quiet(stmts):
    return [s for s in strip_doc(list(stmts)) if not is_noise(s)]


def assign_to(s, name):
    need(isinstance(s, ast.Assign) and len(s.targets) == 1 and isinstance(s.targets[0], ast.Name)
         and s.targets[0].id == name, s, "expected `%s = ...`" % name)
    return s.value


def norm(text, mode="exec"):
    """canonical source text (whatever the Python version prints for tuples, parentheses, quotes)"""
    t = ast.parse(text, mode=mode)
    return U(t.body[0] if mode == "exec" else t.body)


def text_is(s, text):
    need(U(s) == norm(text), s, "expected `%s`" % text)


def sig(fn, names, defaults):
    need([a.arg for a in fn.args.args] == names and not fn.args.vararg and not fn.args.kwonlyargs
         and [U(d) for d in fn.args.defaults] == defaults, fn, "unexpected signature of %s" % fn.name)


def raises_only(s, test_text=None):
    need(isinstance(s, ast.If) and not s.orelse and len(s.body) == 1 and isinstance(s.body[0], ast.Raise), s,
         "expected `if ...: raise ...`")
    if test_text is not None:
        need(U(s.test) == test_text, s, "expected test `%s`" % test_text)


def one_comp(e, target_text, iter_text, ifs=()):
    need(isinstance(e, ast.ListComp) and len(e.generators) == 1, e, "expected a list comprehension")
    g = e.generators[0]
    need(not g.is_async and U(g.target) == target_text and U(g.iter) == iter_text
         and [U(x) for x in g.ifs] == list(ifs), e,
         "expected `for %s in %s%s`" % (target_text, iter_text, "".join(" if " + x for x in ifs)))
    return e.elt


def slice_assign(s, arr, value_text):
    """ARR[lo:hi] = VALUE -> (lo, hi) expressions"""
    need(isinstance(s, ast.Assign) and len(s.targets) == 1 and isinstance(s.targets[0], ast.Subscript)
         and U(s.targets[0].value) == arr and isinstance(s.targets[0].slice, ast.Slice)
         and s.targets[0].slice.step is None and s.targets[0].slice.lower is not None
         and s.targets[0].slice.upper is not None and U(s.value) == value_text, s,
         "expected `%s[lo:hi] = %s`" % (arr, value_text))
    return s.targets[0].slice.lower, s.targets[0].slice.upper


# ============================================================================ ra.save
def do_save(tree, out):
    fn = find_func(tree, "save", RA)
    sig(fn, ["filename", "array", "compression_level", "tag"], ["1", "'arr'"])
    b = quiet(fn.body)
    need(len(b) == 4, fn, "save: expected try / compression / with / return")
    t = b[0]
    need(isinstance(t, ast.Try) and len(t.body) == 1 and len(t.handlers) == 1 and not t.orelse and not t.finalbody
         and U(t.handlers[0].type) == "AttributeError" and t.handlers[0].name is None
         and len(t.handlers[0].body) == 2, t, "save: expected try: n_zeros = ... except AttributeError: (2 statements)")
    nz = tr(subst(assign_to(t.body[0], "n_zeros"), {"len(array.lengths)": "n_rows"}), {"n_rows": "Z"}, "Z")[0]
    nz_nd = tr(assign_to(t.handlers[0].body[0], "n_zeros"), {}, "Z")[0]
    text_is(t.handlers[0].body[1], "array = [array]")
    need(U(assign_to(b[1], "compression")).startswith("tables.Filters("), b[1], "expected tables.Filters(...)")
    w = b[2]
    need(isinstance(w, ast.With) and len(w.items) == 1 and U(w.items[0].context_expr) == "tables.open_file(filename, 'w')"
         and U(w.items[0].optional_vars) == "handle" and len(w.body) == 1, w, "save: unexpected with-block")
    lp = w.body[0]
    need(isinstance(lp, ast.For) and U(lp.target) == "i" and U(lp.iter) == "range(len(array))" and not lp.orelse,
         lp, "save: expected `for i in range(len(array))`")
    body = quiet(lp.body)
    need(len(body) == 5, lp, "save: expected 5 statements in the row loop")
    text_is(body[0], "subarr = array[i]")
    a = body[1]
    need(isinstance(a, ast.If) and U(a.test) == "hasattr(array, '_data')" and len(a.body) == 1 and len(a.orelse) == 1
         and U(assign_to(a.body[0], "atom")) == "tables.Atom.from_dtype(array._data.dtype)"
         and U(assign_to(a.orelse[0], "atom")) == "tables.Atom.from_dtype(subarr.dtype)", a, "save: unexpected atom choice")
    key = tr(assign_to(body[2], "t"), {"tag": "S", "i": "Z", "n_zeros": "Z"}, "S")[0]
    c = assign_to(body[3], "node")
    need(isinstance(c, ast.Call) and U(c.func) == "handle.create_carray" and not c.args
         and {k.arg: U(k.value) for k in c.keywords} == {"where": "'/'", "name": "t", "atom": "atom",
                                                         "shape": "subarr.shape", "filters": "compression"},
         c, "save: unexpected create_carray call")
    text_is(body[4], "node[:] = subarr")
    text_is(b[3], "return filename")
    out += ["(* ---- %s: save *)" % RA,
            "Definition gen_n_zeros (n_rows : Z) : Z := %s." % nz,
            "Definition gen_n_zeros_nd : Z := %s." % nz_nd,
            "Definition gen_key (tag : str) (i n_zeros : Z) : str := %s." % key, ""]


# ============================================================================ ra.load
def do_load(tree, out):
    fn = find_func(tree, "load", RA)
    sig(fn, ["input_name", "keys", "stride"], ["...", "1"])
    b = quiet(fn.body)
    need(len(b) == 1 and isinstance(b[0], ast.With) and len(b[0].items) == 1
         and U(b[0].items[0].context_expr) == "tables.open_file(input_name)"
         and U(b[0].items[0].optional_vars) == "handle" and len(b[0].body) == 1, fn, "load: unexpected with-block")
    top = b[0].body[0]
    need(isinstance(top, ast.If) and U(top.test) == "keys is None", top, "load: expected `if keys is None`")
    s = quiet(top.orelse)
    need(len(s) == 15, top, "load: expected 15 statements in the keyed branch, found %d" % len(s))
    need(isinstance(s[0], ast.If) and U(s[0].test) == "keys is Ellipsis" and not s[0].orelse and len(s[0].body) == 1, s[0],
         "load: expected `if keys is Ellipsis`")
    text_is(s[0].body[0], "keys = [k.name for k in handle.list_nodes('/')]")
    need(isinstance(s[1], ast.If) and U(s[1].test) == "'/lengths' in handle and '/array' in handle" and not s[1].orelse
         and len(s[1].body) == 1 and isinstance(s[1].body[0], ast.Expr)
         and U(s[1].body[0].value).startswith("warnings.warn("), s[1], "load: expected the old-style warning")
    # single key
    one = s[2]
    need(isinstance(one, ast.If) and not one.orelse, one, "load: expected the single-key branch")
    one_test = tr(subst(one.test, {"len(keys)": "n_keys"}), {"n_keys": "Z"}, "B")[0]
    ob = quiet(one.body)
    need(len(ob) == 1 and isinstance(ob[0], ast.Return) and ob[0].value is not None, one, "load: single-key branch must return")
    single = tr(subst(ob[0].value, {"handle.get_node('/' + keys[0])": "node"}), {"node": "LA", "stride": "Z"}, "LA")[0]
    # shapes, guards
    text_is(s[3], "shapes = [handle.get_node(where='/', name=k).shape for k in keys]")
    raises_only(s[4], "not all((len(shapes[0]) == len(shape) for shape in shapes))")
    d = s[5]
    need(isinstance(d, ast.For) and U(d.target) == "dim" and U(d.iter) == "range(1, len(shapes[0]))" and not d.orelse
         and len(d.body) == 1, d, "load: expected the loop over trailing dimensions")
    raises_only(d.body[0], "not all((shapes[0][dim] == shape[dim] for shape in shapes))")
    # lengths
    elt = one_comp(assign_to(s[6], "lengths"), "shape", "shapes")
    load_len = tr(subst(elt, {"shape[0]": "shape0"}), {"shape0": "Z", "stride": "Z"}, "Z")[0]
    text_is(s[7], "concat_shape = (sum(lengths),) + shapes[0][1:]")
    text_is(s[8], "dtype = handle.get_node(where='/', name=keys[0]).dtype")
    raises_only(s[9], "not all([dtype == handle.get_node(where='/', name=k).dtype for k in keys])")
    text_is(s[10], "concat = np.zeros(concat_shape, dtype=dtype)")
    start0 = tr(assign_to(s[11], "start"), {}, "Z")[0]
    # fill loop
    lp = s[12]
    need(isinstance(lp, ast.For) and U(lp.target) == "key" and U(lp.iter) == "keys" and not lp.orelse, lp,
         "load: expected `for key in keys`")
    lb = quiet(lp.body)
    need(len(lb) == 4, lp, "load: the fill loop must be node = ..; end = ..; concat[..] = node; start = .. "
                           "(found %d statements)" % len(lb))
    read = tr(subst(assign_to(lb[0], "node"), {"handle.get_node(where='/', name=key)": "raw"}),
              {"raw": "LA", "stride": "Z"}, "LA")[0]
    end = tr(assign_to(lb[1], "end"), {"start": "Z", "node": "LA"}, "Z")[0]
    lo, hi = slice_assign(lb[2], "concat", "node")
    env2 = {"start": "Z", "end": "Z"}
    lo, hi = tr(lo, env2, "Z")[0], tr(hi, env2, "Z")[0]
    nxt = tr(assign_to(lb[3], "start"), env2, "Z")[0]
    text_is(s[13], "handle.close()")
    text_is(s[14], "return RaggedArray(array=concat, lengths=lengths, copy=False)")
    out += ["(* ---- %s: load *)" % RA,
            "Definition gen_single_key_test (n_keys : Z) : bool := %s." % one_test,
            "Definition gen_single_read {A} (stride : Z) (node : list A) : list A := %s." % single,
            "Definition gen_load_len (shape0 stride : Z) : Z := %s." % load_len,
            "Definition gen_read_row {A} (stride : Z) (raw : list A) : list A := %s." % read,
            "Definition gen_fill_start : Z := %s." % start0,
            "Definition gen_fill_end {A} (stride start : Z) (raw : list A) : Z :=\n"
            "  let node := gen_read_row stride raw in %s." % end,
            "Definition gen_fill_lo (start end_ : Z) : Z := %s." % lo,
            "Definition gen_fill_hi (start end_ : Z) : Z := %s." % hi,
            "Definition gen_fill_next (start end_ : Z) : Z := %s." % nxt,
            "Definition gen_ra_fill {A} (stride : Z) (raws : list (list A)) (buf : list A) : option (list A) :=\n"
            "  fill_loop (gen_read_row stride) (gen_fill_end stride) gen_fill_lo gen_fill_hi gen_fill_next\n"
            "            raws gen_fill_start buf.", ""]


# ============================================================================ util/load.py
CONFIG = ("if kwargs and args:\n    raise exception.ImproperlyConfigured(%s)\n"
          "elif kwargs:\n    args = [kwargs] * len(filenames)\n"
          "elif args:\n    if len(args) != len(filenames):\n        raise exception.ImproperlyConfigured(%s)\n"
          "else:\n    args = [{}] * len(filenames)")


def do_util_load(tree, out):
    # ---------------- sound_trajectory
    fn = find_func(tree, "sound_trajectory", LD)
    sig(fn, ["trj", "stride", "frame"], ["1", "None"])
    b = quiet(fn.body)
    need(len(b) == 2 and isinstance(b[0], ast.With) and len(b[0].items) == 1
         and U(b[0].items[0].context_expr) == "md.open(trj)" and U(b[0].items[0].optional_vars) == "f"
         and len(b[0].body) == 1 and isinstance(b[1], ast.Return) and b[1].value is not None, fn,
         "sound_trajectory: expected with md.open(trj) as f: n_frames = len(f); return ...")
    text_is(b[0].body[0], "n_frames = len(f)")
    sound = tr(b[1].value, {"n_frames": "Z", "stride": "Z"}, "Z")[0]
    # ---------------- load_as_concatenated
    fn = find_func(tree, "load_as_concatenated", LD)
    sig(fn, ["filenames", "lengths", "processes", "args"], ["None", "None", "None"])
    need(fn.args.kwarg is not None and fn.args.kwarg.arg == "kwargs", fn, "load_as_concatenated: expected **kwargs")
    b = quiet(fn.body)
    need(len(b) == 12, fn, "load_as_concatenated: expected 12 statements, found %d" % len(b))
    text_is(b[0], "filenames = list(filenames)")
    cfg = b[1]
    need(isinstance(cfg, ast.If), cfg, "expected the args/kwargs configuration")
    msgs = [U(n.exc.args[0]) for n in ast.walk(cfg) if isinstance(n, ast.Raise) and isinstance(n.exc, ast.Call) and n.exc.args]
    need(len(msgs) == 2 and U(cfg) == CONFIG % tuple(msgs), cfg, "unexpected args/kwargs configuration")
    ln = b[2]
    need(isinstance(ln, ast.If) and U(ln.test) == "lengths is None", ln, "expected `if lengths is None`")
    sb = quiet(ln.body)
    need(len(sb) == 2, ln, "sounding: expected `with mp.Pool(..) as pool: lengths = pool.starmap(..)` and the frame loop "
                           "(found %d statements)" % len(sb))
    w = sb[0]
    need(isinstance(w, ast.With) and len(w.items) == 1 and U(w.items[0].context_expr) == "mp.Pool(processes=processes)"
         and U(w.items[0].optional_vars) == "pool" and len(w.body) == 1, w, "sounding: unexpected pool block")
    call = assign_to(w.body[0], "lengths")
    need(isinstance(call, ast.Call) and U(call.func) == "pool.starmap" and not call.keywords and len(call.args) == 2
         and U(call.args[0]) == "sound_trajectory", call,
         "sounding: lengths must be the (ordered) result list of pool.starmap(sound_trajectory, [...])")
    elt = one_comp(call.args[1], "(f, kw)", "zip(filenames, args)", ["'frame' not in kw"])
    need(isinstance(elt, ast.Tuple) and len(elt.elts) == 2 and U(elt.elts[0]) == "f"
         and U(elt.elts[1]) == "kw.get('stride', 1)", elt, "sounding: expected the job (f, kw.get('stride', 1))")
    fl = sb[1]
    need(isinstance(fl, ast.For) and U(fl.target) == "(i, kw)" and U(fl.iter) == "enumerate(args)" and not fl.orelse
         and len(fl.body) == 1 and isinstance(fl.body[0], ast.If) and U(fl.body[0].test) == "'frame' in kw"
         and not fl.body[0].orelse and len(fl.body[0].body) == 1, fl, "sounding: unexpected frame loop")
    ins = fl.body[0].body[0]
    need(isinstance(ins, ast.Expr) and isinstance(ins.value, ast.Call) and U(ins.value.func) == "lengths.insert"
         and len(ins.value.args) == 2 and not ins.value.keywords and U(ins.value.args[0]) == "i", ins,
         "sounding: expected lengths.insert(i, <length>)")
    frame_len = tr(ins.value.args[1], {}, "Z")[0]
    eb = quiet(ln.orelse)
    need(len(eb) == 1, ln, "lengths hint: expected one guard")
    raises_only(eb[0])
    hint_bad = tr(subst(eb[0].test, {"len(lengths)": "n_lengths", "len(filenames)": "n_files"}),
                  {"n_lengths": "Z", "n_files": "Z"}, "B")[0]
    text_is(b[3], "tmp_args = dict(args[0])")
    text_is(b[4], "if 'frame' in tmp_args:\n    del tmp_args['frame']")
    text_is(b[5], "(full_shape, shared_array) = shared_array_like_trj(lengths, "
                  "example_trj=md.load(filenames[0], frame=0, **tmp_args))")
    w = b[6]
    need(isinstance(w, ast.With) and len(w.items) == 1 and U(w.items[0].optional_vars) == "p"
         and U(w.items[0].context_expr) == "closing(mp.Pool(processes=processes, initializer=_init, "
                                           "initargs=(shared_array,)))" and len(w.body) == 1, w,
         "unexpected worker pool block")
    call = assign_to(w.body[0], "proc")
    need(isinstance(call, ast.Call) and U(call.func) == "p.map_async" and not call.keywords and len(call.args) == 2
         and U(call.args[0]) == "partial(_load_to_position, arr_shape=full_shape)", call,
         "expected p.map_async(partial(_load_to_position, arr_shape=full_shape), ...)")
    z = call.args[1]
    need(isinstance(z, ast.Call) and U(z.func) == "zip" and not z.keywords and len(z.args) == 3
         and U(z.args[1]) == "filenames" and U(z.args[2]) == "args", z, "expected zip(<offsets>, filenames, args)")
    oc = z.args[0]
    need(isinstance(oc, ast.ListComp) and len(oc.generators) == 1 and not oc.generators[0].ifs
         and not oc.generators[0].is_async and U(oc.generators[0].target) == "i"
         and isinstance(oc.generators[0].iter, ast.Call) and U(oc.generators[0].iter.func) == "range"
         and len(oc.generators[0].iter.args) == 1 and not oc.generators[0].iter.keywords, oc,
         "offsets: expected [<expr> for i in range(<n>)]")
    off_n = tr(oc.generators[0].iter.args[0], {"lengths": "LZ"}, "Z")[0]
    off_elt = tr(oc.elt, {"lengths": "LZ", "i": "Z"}, "Z")[0]
    text_is(b[7], "shapes = proc.get()")
    raises_only(b[8], "sum((s[0] for s in shapes)) != full_shape[0]")
    text_is(b[9], "p.join()")
    text_is(b[10], "xyz = _tonumpyarray(shared_array).reshape(full_shape)")
    text_is(b[11], "return (lengths, xyz)")
    # ---------------- shared_array_like_trj: the buffer has sum(lengths) frames
    fn = find_func(tree, "shared_array_like_trj", LD)
    sig(fn, ["lengths", "example_trj"], [])
    fs = [x for x in quiet(fn.body) if isinstance(x, ast.Assign) and U(x.targets[0]) == "full_shape"]
    need(len(fs) == 1 and U(fs[0].value) == "(sum(lengths), shape[1], shape[2])", fn,
         "shared_array_like_trj: expected full_shape = (sum(lengths), shape[1], shape[2])")
    need(U(quiet(fn.body)[-1]) == "return (full_shape, shared_array)", fn, "shared_array_like_trj: unexpected return")
    # ---------------- _load_to_position
    fn = find_func(tree, "_load_to_position", LD)
    sig(fn, ["spec", "arr_shape"], [])
    b = quiet(fn.body)
    need(len(b) == 5, fn, "_load_to_position: expected 5 statements")
    text_is(b[0], "(position, filename, load_kwargs) = spec")
    text_is(b[1], "xyz = md.load(filename, **load_kwargs).xyz")
    text_is(b[2], "arr = _tonumpyarray(shared_array).reshape(arr_shape)")
    lo, hi = slice_assign(b[3], "arr", "xyz")
    envw = {"position": "Z", "xyz": "LA"}
    lo, hi = tr(lo, envw, "Z")[0], tr(hi, envw, "Z")[0]
    text_is(b[4], "return xyz.shape")
    # ---------------- the shared buffer is viewed, not copied, and inherited by the workers
    fn = find_func(tree, "_tonumpyarray", LD)
    sig(fn, ["mp_arr", "dtype"], ["'float32'"])
    b = quiet(fn.body)
    need(len(b) == 1, fn, "_tonumpyarray: expected one statement")
    text_is(b[0], "return np.frombuffer(mp_arr, dtype=dtype)")
    fn = find_func(tree, "_init", LD)
    sig(fn, ["shared_array_"], [])
    b = quiet(fn.body)
    need(len(b) == 2, fn, "_init: expected two statements")
    text_is(b[0], "global shared_array")
    text_is(b[1], "shared_array = shared_array_")
    out += ["(* ---- %s: sound_trajectory, load_as_concatenated, _load_to_position *)" % LD,
            "Definition gen_sound_len (n_frames stride : Z) : Z := %s." % sound,
            "Definition gen_frame_len : Z := %s." % frame_len,
            "(* pool.starmap over the files without a frame keyword, in file order, then lengths.insert(i, ..) *)",
            "Definition gen_lac_lengths (files : list trjspec) : list Z := lac_lengths gen_sound_len gen_frame_len files.",
            "Definition gen_hint_bad (n_lengths n_files : Z) : bool := %s." % hint_bad,
            "Definition gen_offsets (lengths : list Z) : list Z :=\n  map (fun i => %s) (py_range0 %s)." % (off_elt, off_n),
            "Definition gen_win_lo {A} (position : Z) (xyz : list A) : Z := %s." % lo,
            "Definition gen_win_hi {A} (position : Z) (xyz : list A) : Z := %s." % hi,
            "Definition gen_job_write {A} (buf : list A) (position : Z) (xyz : list A) : option (list A) :=\n"
            "  assign_slice buf (gen_win_lo position xyz) (gen_win_hi position xyz) xyz.",
            "Definition gen_job_cells {A} (job : Z * list A) : list Z :=\n"
            "  slice_cells (gen_win_lo (fst job) (snd job)) (gen_win_hi (fst job) (snd job)).",
            "Definition gen_run_jobs {A} (jobs : list (Z * list A)) (buf : list A) : option (list A) :=\n"
            "  run_jobs_with gen_job_write jobs buf.", ""]


# ============================================================================ mpi/io.py
MPI = {"mpi.rank()": "rank", "mpi.size()": "size"}
ENVS = {"l": "LA", "rank": "Z", "size": "Z"}


def stripe_of(e, name):
    t = dict(MPI)
    t[name] = "l"
    return tr(subst(e, t), ENVS, "LA")[0]


def do_mpi_io(tree, out):
    stripes = []
    # ---------------- load_h5_as_striped
    fn = find_func(tree, "load_h5_as_striped", IO)
    sig(fn, ["filename", "stride"], ["1"])
    b = quiet(fn.body)
    need(len(b) == 7, fn, "load_h5_as_striped: expected 7 statements, found %d" % len(b))
    text_is(b[0], "if mpi.rank() == 0:\n    with tables.open_file(filename) as handle:\n"
                  "        all_keys = [k.name for k in handle.list_nodes('/')]\n"
                  "        all_shapes = [handle.get_node(where='/', name=k).shape for k in all_keys]")
    text_is(b[1], "if mpi.size() >= 1:\n"
                  "    all_keys = mpi.comm.bcast(all_keys if mpi.rank() == 0 else None, root=0)\n"
                  "    all_shapes = mpi.comm.bcast(all_shapes if mpi.rank() == 0 else None, root=0)")
    elt = one_comp(assign_to(b[2], "global_lengths"), "s", "all_shapes")
    h5_len = tr(subst(elt, {"s[0]": "shape0"}), {"shape0": "Z", "stride": "Z"}, "Z")[0]
    raises_only(b[3], "len(all_keys) == 2 and 'array' in all_keys and ('lengths' in all_keys)")
    call = assign_to(b[4], "local_data")
    need(isinstance(call, ast.Call) and U(call.func) == "ra.load" and [U(a) for a in call.args] == ["filename"]
         and [k.arg for k in call.keywords] == ["keys", "stride"] and U(call.keywords[1].value) == "stride", call,
         "expected ra.load(filename, keys=..., stride=stride)")
    stripes.append(stripe_of(call.keywords[0].value, "all_keys"))
    br = b[5]
    need(isinstance(br, ast.If) and U(br.test) == "hasattr(local_data, '_data')" and len(br.body) == 1
         and U(br.body[0]) == "local_data = local_data._data" and len(br.orelse) == 2
         and isinstance(br.orelse[0], ast.Assert) and U(br.orelse[1]) == "local_data = local_data", br,
         "unexpected unpacking of the loaded rows")
    a = br.orelse[0].test
    need(isinstance(a, ast.Compare) and len(a.ops) == 1 and isinstance(a.ops[0], ast.Eq) and U(a.comparators[0]) == "1"
         and isinstance(a.left, ast.Call) and U(a.left.func) == "len" and len(a.left.args) == 1, a,
         "expected assert len(global_lengths[rank::size]) == 1")
    stripes.append(stripe_of(a.left.args[0], "global_lengths"))
    text_is(b[6], "return (global_lengths, local_data)")
    # ---------------- load_npy_as_striped
    fn = find_func(tree, "load_npy_as_striped", IO)
    sig(fn, ["filenames", "stride"], ["1"])
    b = quiet(fn.body)
    need(len(b) == 11, fn, "load_npy_as_striped: expected 11 statements, found %d" % len(b))
    text_is(b[0], "specs = [(h.shape, h.dtype) for h in (np.load(f, mmap_mode='r') for f in filenames)]")
    text_is(b[1], "(shape0, dtype) = specs[0]")
    g = b[2]
    need(isinstance(g, ast.For) and U(g.target) == "(i, (s, d))" and U(g.iter) == "enumerate(specs)" and not g.orelse
         and len(g.body) == 2, g, "expected the shape/dtype guard loop")
    raises_only(g.body[0], "s[1:] != shape0[1:]")
    raises_only(g.body[1], "d != dtype")
    elt = one_comp(assign_to(b[3], "global_lengths"), "(s, d)", "specs")
    npy_len = tr(subst(elt, {"s[0]": "shape0"}), {"shape0": "Z", "stride": "Z"}, "Z")[0]
    stripes.append(stripe_of(assign_to(b[4], "local_lengths"), "global_lengths"))
    text_is(b[5], "local_data = np.empty((sum(local_lengths),) + shape0[1:], dtype=dtype)")
    stripes.append(stripe_of(assign_to(b[6], "local_filenames"), "filenames"))
    start0 = tr(assign_to(b[7], "start"), {}, "Z")[0]
    lp = b[8]
    need(isinstance(lp, ast.For) and U(lp.target) == "(i, f)" and U(lp.iter) == "enumerate(local_filenames)"
         and not lp.orelse, lp, "expected `for i, f in enumerate(local_filenames)`")
    lb = quiet(lp.body)
    need(len(lb) == 4, lp, "npy fill loop: expected data = ..; end = ..; local_data[..] = ..; start = ..")
    text_is(lb[0], "data = np.load(f, mmap_mode='r')")
    envd = {"start": "Z", "data": "LA", "stride": "Z"}
    end = tr(assign_to(lb[1], "end"), envd, "Z")[0]
    need(isinstance(lb[2], ast.Assign), lb[2], "expected local_data[start:end] = data[::stride]")
    lo, hi = slice_assign(lb[2], "local_data", U(lb[2].value))
    val = tr(lb[2].value, {"data": "LA", "stride": "Z"}, "LA")[0]
    env2 = {"start": "Z", "end": "Z"}
    lo, hi = tr(lo, env2, "Z")[0], tr(hi, env2, "Z")[0]
    nxt = tr(assign_to(lb[3], "start"), env2, "Z")[0]
    text_is(b[9], "assert end == len(local_data)")
    text_is(b[10], "return (global_lengths, local_data)")
    # ---------------- load_trajectory_as_striped: the same stripe for file names and per-file arguments
    fn = find_func(tree, "load_trajectory_as_striped", IO)
    found = 0
    for n in ast.walk(fn):
        if isinstance(n, ast.Subscript) and isinstance(n.slice, ast.Slice):
            base = U(n.value)
            need(base in ("filenames", "kwargs['args'].copy()"), n, "load_trajectory_as_striped: unexpected slice")
            stripes.append(stripe_of(n, base))
            found += 1
    need(found == 2, fn, "load_trajectory_as_striped: expected the stripes of filenames and kwargs['args']")
    need(len(set(stripes)) == 1, fn, "the rank stripes of keys / lengths / file names differ: %s" % sorted(set(stripes)))
    out += ["(* ---- %s: load_h5_as_striped, load_npy_as_striped *)" % IO,
            "Definition gen_h5_global_len (shape0 stride : Z) : Z := %s." % h5_len,
            "Definition gen_npy_global_len (shape0 stride : Z) : Z := %s." % npy_len,
            "(* all_keys[..], global_lengths[..] (twice), filenames[..]: one and the same slice *)",
            "Definition gen_stripe {A} (rank size : Z) (l : list A) : list A := %s." % stripes[0],
            "Definition gen_npy_read {A} (stride : Z) (data : list A) : list A := %s." % val,
            "Definition gen_npy_start : Z := %s." % start0,
            "Definition gen_npy_end {A} (stride start : Z) (data : list A) : Z := %s." % end,
            "Definition gen_npy_lo (start end_ : Z) : Z := %s." % lo,
            "Definition gen_npy_hi (start end_ : Z) : Z := %s." % hi,
            "Definition gen_npy_next (start end_ : Z) : Z := %s." % nxt,
            "Definition gen_npy_fill {A} (stride : Z) (raws : list (list A)) (buf : list A) : option (list A) :=\n"
            "  fill_loop (gen_npy_read stride) (gen_npy_end stride) gen_npy_lo gen_npy_hi gen_npy_next\n"
            "            raws gen_npy_start buf.", ""]


def translate(repo):
    out = ["(* GENERATED by translator/tr_store.py from %s, %s, %s -- do not edit *)" % (RA, LD, IO),
           "From Coq Require Import List ZArith QArith Qround Bool.",
           "From EV Require Import PySlice Store StoreBase.",
           "Import ListNotations.", "Open Scope Z_scope.", ""]
    tree, _ = parse_file(repo, RA)
    do_save(tree, out)
    do_load(tree, out)
    tree, _ = parse_file(repo, LD)
    do_util_load(tree, out)
    tree, _ = parse_file(repo, IO)
    do_mpi_io(tree, out)
    return {"Gen/StoreGen.v": "\n".join(out)}


if __name__ == "__main__":
    import sys
    print(translate(sys.argv[1] if len(sys.argv) > 1 else "/repo")["Gen/StoreGen.v"])
