"""enspara/tpt/core.py: _I_m_Q, committors, mfpts  ->  Gen/TptGen.v

A fail-closed symbolic reading of the three functions into the array vocabulary of Base/TptBase.v.
Every statement is either matched *textually* against a short whitelist of container / argument
normalisations that have no counterpart in the model (listed in SKIP below), or interpreted by the
tables in `Fn.ev` / `Fn.stmt`; anything else raises TranslatorReject.

What is regenerated (so that a change of the source changes the Coq text, and the proofs in
Proof/TptGenProofs.v that the generated definitions equal Model/TPT.v's stop compiling):
  _I_m_Q      np.eye(n) - tprob; the column mask, the row mask, the unit diagonal, in source order
  committors  R = tprob[:, sinks]; R[sinks] = 1; R[sources] = 0 (order kept); the absorbing set
              np.append(sources, sinks); the arguments of spsolve and their order; the reshape;
              the axis of the sum; the final pin committors[sinks] = 1
  mfpts       (sinks given)  c = ones; c[sinks] = 0; solve(I_m_Q, c); the factor lagtime
              (sinks None)   W = rows of populations; inv(eye - tprob + W); lagtime*(diag(Z) - Z)/W
                             with NumPy's broadcasting of the 1-D diag(Z) along the last axis

Values carry a kind (M 2-D float array, V 1-D float array, I index array, N extent, Q scalar), a
symbolic shape (Coq nat expressions) and an ownership flag.  Fail-closed rules beyond the tables:
  * module level: only the known imports, __all__ and the three undecorated functions; any other
    top-level statement (a cache, a rebinding, a helper) is rejected, as is any decorator (e.g.
    functools.lru_cache), any call of a function not in the tables, any name that is not a
    parameter or a local bound earlier (no module-level arrays);
  * item assignment only into an array this call created itself (np.eye/np.ones/arithmetic/fancy
    index/.sum/_I_m_Q result) and that has no live view; never into a parameter, a view (.T,
    reshape, np.diag) or a second name of the same array (plain `a = b` of arrays is rejected);
  * elementwise operations need equal symbolic shapes (1-D against 2-D: the 1-D extent must be
    the number of columns); index arrays may only index an axis of extent n_states;
  * extents are the name n_states (= tprob.shape[0]) or <index array>.shape[0] / len(<index array>).
"""
import ast
from fractions import Fraction
from pyast import parse_file, find_func, reject, strip_doc
from core import TranslatorReject

REL = "enspara/tpt/core.py"
NS = "n_states"

MODULE_OK = {
    "from __future__ import print_function, division, absolute_import",
    "import warnings", "import numpy as np", "import scipy.sparse", "import scipy.sparse.linalg",
    "from ..msm.transition_matrices import eq_probs", "__all__ = ['committors', 'mfpts']",
}
FUNCS = ("_I_m_Q", "committors", "mfpts")

# statements without a counterpart in the model (containers, optional arguments): exact text only
SKIP = {
    "_I_m_Q": {"if n_states is None:\n    n_states = len(tprob)"},
    "committors": {"if scipy.sparse.issparse(tprob):\n    tprob = tprob.tolil()"},
    "mfpts": {"if scipy.sparse.issparse(tprob):\n    tprob = tprob.toarray()",
              # populations=None: the wrapper (Model/TPTGen.v) supplies the stationary vector
              "if populations is None:\n    populations = eq_probs(tprob)"},
}
SOLVERS = ("scipy.sparse.linalg.spsolve", "np.linalg.solve", "np.linalg.inv")


def qlit(v):
    fr = Fraction(v)
    return "(Qmake (%d) %d)" % (fr.numerator, fr.denominator)


def cmt(node):
    return ast.unparse(node).replace("(*", "( *").replace("*)", "* )").replace("\n", " ")


class Val:
    def __init__(self, kind, coq, shape=(), owned=False, base=None):
        self.kind, self.coq, self.shape, self.owned, self.base = kind, coq, tuple(shape), owned, base


class Fn:
    """one function body -> a Gallina let-chain"""

    def __init__(self, fname, env):
        self.fname = fname
        self.env = dict(env)
        self.lines = []
        self.nbind = 0
        self.ntmp = 0
        self.ret = None

    # ---------------------------------------------------------------- output
    def fresh(self, name, val, node):
        for v in self.env.values():
            if any(("(length %s)" % name) in d for d in v.shape):
                reject(node, "rebinding %s while a live shape mentions it" % name)
        self.env[name] = Val(val.kind, name, val.shape, val.owned, val.base)

    def let(self, name, val, node):
        self.lines.append("let %s := %s in  (* L%d: %s *)" % (name, val.coq, node.lineno, cmt(node)))
        self.fresh(name, val, node)

    def bind(self, coq, val, node, name=None):
        if name is None:
            self.ntmp += 1
            name = "s%d" % self.ntmp
        self.lines.append("obind (%s) (fun %s =>  (* L%d: %s *)" % (coq, name, node.lineno, cmt(node)))
        self.nbind += 1
        self.fresh(name, val, node)
        return self.env[name]

    # ---------------------------------------------------------------- expressions
    def name(self, e, kinds):
        if not isinstance(e, ast.Name):
            reject(e, "a plain name expected")
        if e.id not in self.env:
            reject(e, "unknown name %s (not a parameter or an earlier local)" % e.id)
        v = self.env[e.id]
        if v.kind not in kinds:
            reject(e, "%s has kind %s, one of %s expected" % (e.id, v.kind, kinds))
        return v

    def extent(self, e):
        """N-valued expressions"""
        if isinstance(e, ast.Name):
            return self.name(e, ("N",))
        if isinstance(e, ast.Subscript) and isinstance(e.value, ast.Attribute) and e.value.attr == "shape" \
                and isinstance(e.slice, ast.Constant) and e.slice.value == 0 and isinstance(e.value.value, ast.Name):
            v = self.name(e.value.value, ("I",))
            return Val("N", "(length %s)" % v.coq)
        if isinstance(e, ast.Call) and ast.unparse(e.func) == "len" and len(e.args) == 1 and not e.keywords:
            v = self.name(e.args[0], ("I",))
            return Val("N", "(length %s)" % v.coq)
        reject(e, "unsupported extent expression")

    @staticmethod
    def full_slice(s):
        return isinstance(s, ast.Slice) and s.lower is None and s.upper is None and s.step is None

    def index_form(self, sl):
        """classify a subscript: ('cols', I) for [:, I]; ('rows', I) for [I, :] and [I]; ('pairs', I1, I2)"""
        if isinstance(sl, ast.Tuple) and len(sl.elts) == 2:
            a, b = sl.elts
            if self.full_slice(a) and isinstance(b, ast.Name):
                return ("cols", self.name(b, ("I",)))
            if self.full_slice(b) and isinstance(a, ast.Name):
                return ("rows", self.name(a, ("I",)))
            if isinstance(a, ast.Name) and isinstance(b, ast.Name):
                return ("pairs", self.name(a, ("I",)), self.name(b, ("I",)))
            reject(sl, "unsupported 2-D index")
        if isinstance(sl, ast.Name):
            return ("rows", self.name(sl, ("I",)))
        reject(sl, "unsupported index")

    def ev(self, e, target=None):
        if isinstance(e, ast.Constant):
            if isinstance(e.value, bool) or not isinstance(e.value, (int, float)):
                reject(e, "unsupported constant")
            return Val("Q", qlit(e.value))
        if isinstance(e, ast.Name):
            return self.name(e, ("M", "V", "I", "N", "Q"))
        if isinstance(e, ast.Attribute):
            if e.attr == "T":
                v = self.ev(e.value)
                if v.kind != "M":
                    reject(e, ".T of a non-2-D value")
                return Val("M", "(a_T %s)" % v.coq, (v.shape[1], v.shape[0]), False, v.base or v.coq)
            reject(e, "unsupported attribute")
        if isinstance(e, ast.Subscript):
            v = self.name(e.value, ("M",))
            form = self.index_form(e.slice)
            if form[0] == "cols":
                if v.shape[1] != NS:
                    reject(e, "state indices on an axis of extent %s" % v.shape[1])
                return Val("M", "(a_takecols %s %s)" % (v.coq, form[1].coq),
                           (v.shape[0], "(length %s)" % form[1].coq), True)
            if form[0] == "rows":
                if v.shape[0] != NS:
                    reject(e, "state indices on an axis of extent %s" % v.shape[0])
                return Val("M", "(a_takerows %s %s)" % (v.coq, form[1].coq),
                           ("(length %s)" % form[1].coq, v.shape[1]), True)
            reject(e, "unsupported read index")
        if isinstance(e, ast.BinOp):
            return self.binop(e)
        if isinstance(e, ast.Call):
            return self.call(e, target)
        reject(e, "unsupported expression")

    def binop(self, e):
        l, r = self.ev(e.left), self.ev(e.right)
        op = type(e.op)
        if op is ast.Mult and l.kind == "Q" and r.kind == "M":
            return Val("M", "(a_scale %s %s)" % (l.coq, r.coq), r.shape, True)
        if op is ast.Mult and l.kind == "Q" and r.kind == "V":
            return Val("V", "(v_scale %s %s)" % (l.coq, r.coq), r.shape, True)
        names = {ast.Add: "a_add", ast.Sub: "a_sub", ast.Div: "a_div"}
        if op in names and l.kind in ("M", "V") and r.kind in ("M", "V") and "M" in (l.kind, r.kind):
            def lift(v, other):
                if v.kind == "M":
                    return v
                if v.shape[0] != other.shape[1]:
                    reject(e, "cannot broadcast extent %s against %s columns" % (v.shape[0], other.shape[1]))
                return Val("M", "(a_bcast_row %s)" % v.coq, other.shape)
            l2, r2 = lift(l, r), lift(r, l)
            if l2.shape != r2.shape:
                reject(e, "shape mismatch %s vs %s" % (l2.shape, r2.shape))
            return Val("M", "(%s %s %s)" % (names[op], l2.coq, r2.coq), l2.shape, True)
        reject(e, "unsupported arithmetic (%s %s %s)" % (l.kind, op.__name__, r.kind))

    def call(self, e, target):
        f = ast.unparse(e.func)
        txt = ast.unparse(e)
        # index-array normalisation (exact text)
        if isinstance(e.func, ast.Attribute) and e.func.attr == "flatten":
            for nm, v in self.env.items():
                if v.kind == "I" and txt == "np.array(%s, dtype=int).reshape((-1, 1)).flatten()" % nm:
                    return Val("I", "(i_norm %s)" % v.coq)
            reject(e, "unsupported flatten")
        if f == "np.append" and len(e.args) == 2 and not e.keywords:
            a, b = self.name(e.args[0], ("I",)), self.name(e.args[1], ("I",))
            return Val("I", "(i_append %s %s)" % (a.coq, b.coq))
        if f in ("np.eye", "np.ones") and len(e.args) == 1 and not e.keywords:
            n = self.extent(e.args[0])
            if f == "np.eye":
                return Val("M", "(a_eye %s)" % n.coq, (n.coq, n.coq), True)
            return Val("V", "(v_ones %s)" % n.coq, (n.coq,), True)
        if f == "np.array" and len(e.args) == 1 and not e.keywords:
            a = e.args[0]
            if isinstance(a, ast.BinOp) and isinstance(a.op, ast.Mult) and isinstance(a.left, ast.List) \
                    and len(a.left.elts) == 1:
                v = self.name(a.left.elts[0], ("V",))
                n = self.extent(a.right)
                return Val("M", "(a_tile_rows %s %s)" % (v.coq, n.coq), (n.coq, v.shape[0]), True)
            reject(e, "unsupported np.array argument")
        if f == "np.diag" and len(e.args) == 1 and not e.keywords:
            v = self.ev(e.args[0])
            if v.kind != "M" or v.shape[0] != v.shape[1]:
                reject(e, "np.diag of a non-square value")
            return Val("V", "(a_diag %s)" % v.coq, (v.shape[0],), False, v.base or v.coq)
        if isinstance(e.func, ast.Attribute) and e.func.attr == "reshape" and not e.keywords:
            v = self.ev(e.func.value)
            if v.kind != "M" or len(e.args) != 2:
                reject(e, "unsupported reshape")
            dims = tuple(self.extent(a).coq for a in e.args)
            if dims != v.shape:
                reject(e, "reshape %s of a value of shape %s" % (dims, v.shape))
            return Val("M", v.coq, v.shape, False, v.base or v.coq)
        if isinstance(e.func, ast.Attribute) and e.func.attr == "sum" and not e.args and len(e.keywords) == 1 \
                and e.keywords[0].arg == "axis" and isinstance(e.keywords[0].value, ast.Constant) \
                and e.keywords[0].value.value in (0, 1) and not isinstance(e.keywords[0].value.value, bool):
            v = self.ev(e.func.value)
            if v.kind != "M":
                reject(e, ".sum(axis=) of a non-2-D value")
            ax = e.keywords[0].value.value
            return Val("V", "(a_sum_axis%d %s %s %s)" % (ax, v.shape[0], v.shape[1], v.coq),
                       (v.shape[0] if ax == 1 else v.shape[1],), True)
        if f == "_I_m_Q" and self.fname != "_I_m_Q":
            if len(e.args) != 2 or len(e.keywords) != 1 or e.keywords[0].arg != NS:
                reject(e, "unexpected call of _I_m_Q")
            t = self.name(e.args[0], ("M",))
            a = self.name(e.args[1], ("I",))
            n = self.name(e.keywords[0].value, ("N",))
            if t.shape != (NS, NS) or n.coq != NS:
                reject(e, "_I_m_Q on a non-(n_states x n_states) value")
            return Val("M", "(gen_I_m_Q %s %s %s)" % (t.coq, a.coq, n.coq), (NS, NS), True)
        if f in SOLVERS and not e.keywords:
            if self.fname == "_I_m_Q":
                reject(e, "solver call inside _I_m_Q")
            args = [self.ev(a) for a in e.args]
            if not args or args[0].kind != "M" or args[0].shape != (NS, NS):
                reject(e, "solver on a non-(n_states x n_states) matrix")
            A = args[0]
            if f == "np.linalg.inv" and len(args) == 1:
                return self.bind("a_inv %s %s" % (NS, A.coq), Val("M", None, (NS, NS), True), e, target)
            if len(args) == 2 and args[1].kind == "M" and args[1].shape[0] == NS:
                R = args[1]
                return self.bind("a_solve %s %s %s %s" % (NS, R.shape[1], A.coq, R.coq),
                                 Val("M", None, R.shape, True), e, target)
            if f == "np.linalg.solve" and len(args) == 2 and args[1].kind == "V" and args[1].shape == (NS,):
                return self.bind("a_solve_vec %s %s %s" % (NS, A.coq, args[1].coq),
                                 Val("V", None, (NS,), True), e, target)
            reject(e, "unsupported solver arguments")
        reject(e, "call of %s is not in the tables" % f)

    # ---------------------------------------------------------------- statements
    def stmt(self, s):
        if self.ret is not None:
            reject(s, "code after return")
        if isinstance(s, ast.Expr) and isinstance(s.value, ast.Constant) and isinstance(s.value.value, str):
            return
        if ast.unparse(s) in SKIP[self.fname]:
            return
        if isinstance(s, ast.With):
            if len(s.items) != 1 or ast.unparse(s.items[0]) != "warnings.catch_warnings()" or not s.body \
                    or ast.unparse(s.body[0]) != "warnings.simplefilter('ignore')":
                reject(s, "unsupported with-block")
            for x in s.body[1:]:
                self.stmt(x)
            return
        if isinstance(s, ast.Return):
            v = self.name(s.value, ("M", "V")) if s.value is not None else reject(s, "bare return")
            self.ret = v
            return
        if isinstance(s, ast.Assign) and len(s.targets) == 1:
            t = s.targets[0]
            if isinstance(t, ast.Name):
                if ast.unparse(s) == "%s = tprob.shape[0]" % NS:
                    tp = self.env.get("tprob")
                    if tp is None or tp.kind != "M" or tp.shape != (NS, NS) or tp.coq != "tprob":
                        reject(s, "n_states of something that is not the transition matrix")
                    return      # n_states is a parameter of the generated definition
                if t.id in ("tprob", NS, "lagtime", "populations"):
                    reject(s, "rebinding of %s" % t.id)
                if isinstance(s.value, ast.Name) and self.env.get(s.value.id) is not None \
                        and self.env[s.value.id].kind in ("M", "V"):
                    reject(s, "second name for an array (aliasing)")
                is_solver = isinstance(s.value, ast.Call) and ast.unparse(s.value.func) in SOLVERS
                v = self.ev(s.value, target=t.id if is_solver else None)
                if v.kind not in ("M", "V", "I"):
                    reject(s, "unsupported local of kind %s" % v.kind)
                if t.id in self.env and self.env[t.id].kind != v.kind:
                    reject(s, "%s changes kind" % t.id)
                if not (is_solver and v.coq == t.id):
                    self.let(t.id, v, s)
                return
            if isinstance(t, ast.Subscript):
                x = self.name(t.value, ("M", "V"))
                if not x.owned or x.base is not None:
                    reject(s, "item assignment into %s, which this call did not create (parameter, view or shared array)"
                           % x.coq)
                for nm, v in self.env.items():
                    if v.base == x.coq:
                        reject(s, "item assignment into %s while its view %s is live" % (x.coq, nm))
                c = self.ev(s.value)
                if c.kind != "Q" or not isinstance(s.value, ast.Constant):
                    reject(s, "only constants are assigned into arrays")
                form = self.index_form(t.slice)
                if x.kind == "V":
                    if form[0] != "rows" or isinstance(t.slice, ast.Tuple) or x.shape[0] != NS:
                        reject(s, "unsupported 1-D item assignment")
                    new = Val("V", "(v_set %s %s %s)" % (x.coq, form[1].coq, c.coq), x.shape, True)
                elif form[0] == "cols":
                    if x.shape[1] != NS:
                        reject(s, "state indices on an axis of extent %s" % x.shape[1])
                    new = Val("M", "(a_setcols %s %s %s)" % (x.coq, form[1].coq, c.coq), x.shape, True)
                elif form[0] == "rows":
                    if x.shape[0] != NS:
                        reject(s, "state indices on an axis of extent %s" % x.shape[0])
                    new = Val("M", "(a_setrows %s %s %s)" % (x.coq, form[1].coq, c.coq), x.shape, True)
                else:
                    if x.shape != (NS, NS):
                        reject(s, "paired state indices on a value of shape %s" % (x.shape,))
                    new = Val("M", "(a_setpairs %s %s %s %s)" % (x.coq, form[1].coq, form[2].coq, c.coq), x.shape, True)
                self.let(t.value.id, new, s)
                return
        reject(s, "unsupported statement")


def check_sig(fn, names, defaults):
    a = fn.args
    if fn.decorator_list:
        reject(fn, "decorated function (cached / wrapped results are not modelled)")
    if a.vararg or a.kwarg or a.kwonlyargs or a.posonlyargs or [x.arg for x in a.args] != names \
            or [ast.unparse(d) for d in a.defaults] != defaults:
        reject(fn, "unexpected signature of %s" % fn.name)
    for n in ast.walk(fn):
        if isinstance(n, (ast.Global, ast.Nonlocal, ast.Lambda, ast.FunctionDef, ast.AsyncFunctionDef, ast.ClassDef,
                          ast.Yield, ast.YieldFrom, ast.Await, ast.NamedExpr, ast.Delete, ast.Try, ast.While, ast.For)) \
                and n is not fn:
            reject(n, "unsupported construct in %s" % fn.name)


def translate(repo):
    tree, _ = parse_file(repo, REL)
    seen = []
    for n in tree.body:
        if isinstance(n, ast.Expr) and isinstance(n.value, ast.Constant) and isinstance(n.value.value, str):
            continue
        if isinstance(n, ast.FunctionDef) and n.name in FUNCS:
            seen.append(n.name)
            continue
        if ast.unparse(n) in MODULE_OK:
            continue
        reject(n, "unexpected module-level statement")
    if sorted(seen) != sorted(FUNCS):
        raise TranslatorReject("%s: expected exactly one definition each of %s, found %s" % (REL, FUNCS, seen))
    TP = Val("M", "tprob", (NS, NS))
    N = Val("N", NS)
    out = ["(* GENERATED by translator/tr_tpt.py from %s -- do not edit *)" % REL,
           "From Coq Require Import List QArith Bool Arith.", "From EV Require Import TPT TptBase.",
           "Import ListNotations.", "Open Scope Q_scope.", ""]

    # ---------------- _I_m_Q
    fn = find_func(tree, "_I_m_Q", REL)
    check_sig(fn, ["tprob", "absorbing_states", NS], ["None"])
    F = Fn("_I_m_Q", {"tprob": TP, "absorbing_states": Val("I", "absorbing_states"), NS: N})
    for s in strip_doc(fn.body):
        F.stmt(s)
    if F.ret is None or F.ret.kind != "M" or F.ret.shape != (NS, NS) or not F.ret.owned or F.ret.base is not None \
            or F.nbind:
        reject(fn, "_I_m_Q must return an (n_states x n_states) array it created")
    out.append("Definition gen_I_m_Q (tprob : arr2) (absorbing_states : list nat) (n_states : nat) : arr2 :=\n  %s.\n"
               % "\n  ".join(F.lines + [F.ret.coq]))

    # ---------------- committors
    fn = find_func(tree, "committors", REL)
    check_sig(fn, ["tprob", "sources", "sinks"], [])
    F = Fn("committors", {"tprob": TP, "sources": Val("I", "sources"), "sinks": Val("I", "sinks"), NS: N})
    for s in strip_doc(fn.body):
        F.stmt(s)
    if F.ret is None or F.ret.kind != "V" or F.ret.shape != (NS,):
        reject(fn, "committors must return one value per state")
    out.append("Definition gen_committors (tprob : arr2) (sources sinks : list nat) (n_states : nat) : option arr1 :=\n"
               "  %s.\n" % ("\n  ".join(F.lines + ["Some %s" % F.ret.coq]) + ")" * F.nbind))

    # ---------------- mfpts: the two branches of `if sinks is None`
    fn = find_func(tree, "mfpts", REL)
    check_sig(fn, ["tprob", "sinks", "populations", "lagtime"], ["None", "None", "1.0"])
    body = strip_doc(fn.body)
    splits = [i for i, s in enumerate(body) if isinstance(s, ast.If) and ast.unparse(s.test) == "sinks is None"]
    if len(splits) != 1 or not body[splits[0]].orelse:
        reject(fn, "expected exactly one `if sinks is None: ... else: ...` in mfpts")
    k = splits[0]
    for which, branch, env, kind, shape, sig in (
            ("all", body[k].body, {"populations": Val("V", "populations", (NS,))}, "M", (NS, NS),
             "(tprob : arr2) (populations : arr1) (lagtime : Q) (n_states : nat) : option arr2"),
            ("sinks", body[k].orelse, {"sinks": Val("I", "sinks")}, "V", (NS,),
             "(tprob : arr2) (sinks : list nat) (lagtime : Q) (n_states : nat) : option arr1")):
        e = {"tprob": TP, "lagtime": Val("Q", "lagtime"), NS: N}
        e.update(env)
        F = Fn("mfpts", e)
        for s in body[:k] + list(branch) + body[k + 1:]:
            F.stmt(s)
        if F.ret is None or F.ret.kind != kind or F.ret.shape != shape:
            reject(fn, "mfpts (%s branch) returns a value of the wrong shape" % which)
        out.append("Definition gen_mfpts_%s %s :=\n  %s.\n"
                   % (which, sig, "\n  ".join(F.lines + ["Some %s" % F.ret.coq]) + ")" * F.nbind))
    return {"Gen/TptGen.v": "\n".join(out)}


if __name__ == "__main__":
    import sys
    for rel, text in translate(sys.argv[1] if len(sys.argv) > 1 else "/repo").items():
        print("(* ---- %s ---- *)" % rel)
        print(text)
