"""enspara/tpt/tpt.py: _get_data_from_tprob, reactive_fluxes, net_fluxes, reactive_populations
->  Gen/FluxGen.v   (array vocabulary: Base/FluxBase.v)

What is regenerated: the array expressions that carry property C08 -- the flux product (which
operand is stretched along rows `[:, None]`, which along columns), `reverse = 1 - forward`, the
diagonal reset, `fluxes - fluxes.T` and the positive-part selection of both container branches, the
density product and its normalisation -- as Gallina let-chains in the source's own variable names.
Every function with an `if sparse.issparse(X)` is translated twice, once per container kind.

Fail-closed: every statement and expression outside the tables below raises TranslatorReject.

Shape typing (the part of NumPy / scipy.sparse semantics this translator is trusted for)
    Md / Ms   2-d ndarray / scipy.sparse matrix          V   1-d ndarray
    C         (n,1) ndarray  `v[:, None]`                 R   (1,n) ndarray  `v[None, :]`
    N         int                                         S   scalar number
Expressions
    NAME                                       bound name
    integer / float literal                    S
    v[:, None]   v[None, :]                    V -> C / R
    x * y            Md*C, C*Md -> row_scale;  Md*V, V*Md, Md*R, R*Md -> col_scale;  V*V -> hadamard_v;
                     Md*Md -> hadamard;  any Ms operand: REJECTED (`*` is the matrix product there)
    x.multiply(y)    x : Ms;  y : C -> row_scale;  V, R -> col_scale;  Ms -> hadamard;  result Ms
                     (x : Md rejected: ndarrays have no .multiply)
    s - v            S, V -> scalar_sub_vec
    x - y            Md,Md / Ms,Ms -> mat_sub
    x.T              Md / Ms -> transpose_m
    x.tolil() .tocsr() .tocsc() .tocoo()       x : Ms, container conversion (identity on the entries)
    x.maximum(c)     x : Ms, c literal -> mat_maximum
    np.sum(v)        V -> vec_sum : S              v / s   V, S -> vec_div_scalar
    len(v)           V -> length : N
    committors(tprob, sources, sinks)          only in _get_data_from_tprob: the input `committors_out` (C07)
    reactive_fluxes(tprob, sources, sinks, populations=populations)
                                               only in net_fluxes, arguments not rebound: gen_reactive_fluxes_<kind>
Statements
    NAME = <expr>
    A, B, C, D = _get_data_from_tprob(tprob, sources, sinks, populations)   first statement of a caller
    if sparse.issparse(NAME): ... else: ...     NAME : Md / Ms selects the branch that is inlined
    X[(np.arange(N), np.arange(N))] = np.zeros(N)        X : Md / Ms, N : N  -> zero_diag_n
    X[np.where(X < c)] = v                      X : Md (rejected on Ms), c, v literals -> set_where_lt
    return NAME
    if isinstance(tprob, np.matrix): tprob = np.asarray(tprob)     exact text, REQUIRED as the second statement of
                                                reactive_fluxes (the only function that multiplies tprob): without it
                                                `tprob * x` on an np.matrix is the matrix product and the typing Md
                                                of tprob would be wrong; the entries are unchanged (no Gallina text)
_get_data_from_tprob additionally (exact text): the two `np.array(..).reshape((-1,))` normalisations of
sources / sinks and `if populations is None: populations = eq_probs(tprob)` (the populations are an input
of the model, given or computed), and `return` of a 4-tuple of names.
"""
import ast, os
from fractions import Fraction
from pyast import parse_file, find_func, reject, strip_doc
from core import TranslatorReject

REL = "enspara/tpt/tpt.py"
ARGS = ["tprob", "sources", "sinks", "populations"]
HELPER = "_get_data_from_tprob"
MAT = ("Md", "Ms")
MATRIX_NORM = "if isinstance(tprob, np.matrix):\n    tprob = np.asarray(tprob)"
COQTY = {"Md": "mat", "Ms": "mat", "V": "vec", "N": "nat", "S": "Q"}


def lit(e):
    """numeric literal -> Coq Q term, or None"""
    if isinstance(e, ast.UnaryOp) and isinstance(e.op, ast.USub):
        v = lit(e.operand)
        return None if v is None else "(- %s)" % v
    if isinstance(e, ast.Constant) and type(e.value) in (int, float):
        fr = Fraction(e.value)
        if fr < 0:
            return None
        return "(%d # %d)" % (fr.numerator, fr.denominator)
    return None


def check_sig(fn, default_none):
    a = fn.args
    if [x.arg for x in a.args] != ARGS or a.vararg or a.kwarg or a.kwonlyargs or a.posonlyargs or fn.decorator_list:
        reject(fn, "unexpected signature of %s" % fn.name)
    if default_none:
        if not (len(a.defaults) == 1 and isinstance(a.defaults[0], ast.Constant) and a.defaults[0].value is None):
            reject(fn, "expected populations=None as the only default of %s" % fn.name)
    elif a.defaults:
        reject(fn, "unexpected defaults of %s" % fn.name)


class Fn:
    """translation of one function body for one container kind"""

    def __init__(self, kind, helper_types=None, in_helper=False):
        self.kind = kind                      # "dense" | "sparse"
        self.env = {"tprob": "Md" if kind == "dense" else "Ms", "populations": "V"}
        self.rebound = set()
        self.lets = []
        self.helper_types = helper_types
        self.in_helper = in_helper
        self.n_committor_calls = 0

    # ------------------------------------------------------------------ expressions
    def mul(self, e, a, ta, b, tb, method):
        """elementwise product with broadcasting; method = True for x.multiply(y)"""
        if method:
            if ta != "Ms":
                reject(e, ".multiply on a %s operand (only scipy.sparse matrices have it)" % ta)
            res = "Ms"
        else:
            if "Ms" in (ta, tb):
                reject(e, "`*` with a scipy.sparse operand is the matrix product, not the elementwise one")
            res = "Md"
        if ta in MAT and tb == "C":
            return "(row_scale %s %s)" % (b, a), res
        if ta == "C" and tb in MAT:
            return "(row_scale %s %s)" % (a, b), res
        if ta in MAT and tb in ("V", "R"):
            return "(col_scale %s %s)" % (b, a), res
        if ta in ("V", "R") and tb in MAT:
            return "(col_scale %s %s)" % (a, b), res
        if ta in MAT and tb == ta:
            return "(hadamard %s %s)" % (a, b), res
        if ta == "V" and tb == "V" and not method:
            return "(hadamard_v %s %s)" % (a, b), "V"
        reject(e, "unsupported elementwise product of shapes %s and %s" % (ta, tb))

    def expr(self, e):
        if isinstance(e, ast.Name):
            if e.id not in self.env:
                reject(e, "unknown name %s" % e.id)
            return e.id, self.env[e.id]
        v = lit(e)
        if v is not None:
            return v, "S"
        if isinstance(e, ast.BinOp):
            a, ta = self.expr(e.left)
            b, tb = self.expr(e.right)
            if isinstance(e.op, ast.Mult):
                return self.mul(e, a, ta, b, tb, False)
            if isinstance(e.op, ast.Sub):
                if ta == "S" and tb == "V":
                    return "(scalar_sub_vec %s %s)" % (a, b), "V"
                if ta in MAT and tb == ta:
                    return "(mat_sub %s %s)" % (a, b), ta
                reject(e, "unsupported subtraction of shapes %s and %s" % (ta, tb))
            if isinstance(e.op, ast.Div):
                if ta == "V" and tb == "S":
                    return "(vec_div_scalar %s %s)" % (a, b), "V"
                reject(e, "unsupported division of shapes %s and %s" % (ta, tb))
            reject(e, "unsupported binary operator")
        if isinstance(e, ast.Subscript):
            a, ta = self.expr(e.value)
            s = e.slice
            if ta == "V" and isinstance(s, ast.Tuple) and len(s.elts) == 2:
                def full(x):
                    return isinstance(x, ast.Slice) and x.lower is None and x.upper is None and x.step is None

                def none(x):
                    return isinstance(x, ast.Constant) and x.value is None
                if full(s.elts[0]) and none(s.elts[1]):
                    return a, "C"
                if none(s.elts[0]) and full(s.elts[1]):
                    return a, "R"
            reject(e, "unsupported subscript (only v[:, None] and v[None, :] on a 1-d array)")
        if isinstance(e, ast.Attribute):
            a, ta = self.expr(e.value)
            if e.attr == "T" and ta in MAT:
                return "(transpose_m %s)" % a, ta
            reject(e, "unsupported attribute .%s on shape %s" % (e.attr, ta))
        if isinstance(e, ast.Call):
            return self.call(e)
        reject(e, "unsupported expression")

    def call(self, e):
        txt = ast.unparse(e)
        if e.keywords and txt != "reactive_fluxes(tprob, sources, sinks, populations=populations)":
            reject(e, "unsupported keyword arguments")
        if txt == "committors(tprob, sources, sinks)":
            if not self.in_helper or self.rebound & {"tprob"}:
                reject(e, "committors(...) is translated only inside %s" % HELPER)
            self.n_committor_calls += 1
            return "committors_out", "V"
        if txt == "reactive_fluxes(tprob, sources, sinks, populations=populations)":
            if self.in_helper or self.rebound & {"tprob", "populations"}:
                reject(e, "reactive_fluxes(...) with rebound arguments")
            return "(gen_reactive_fluxes_%s tprob populations committors_out)" % self.kind, self.env["tprob"]
        f = e.func
        if isinstance(f, ast.Attribute) and not (isinstance(f.value, ast.Name) and f.value.id in ("np", "sparse")):
            a, ta = self.expr(f.value)
            if f.attr == "multiply" and len(e.args) == 1:
                b, tb = self.expr(e.args[0])
                return self.mul(e, a, ta, b, tb, True)
            if f.attr in ("tolil", "tocsr", "tocsc", "tocoo") and not e.args:
                if ta != "Ms":
                    reject(e, ".%s() on a %s operand" % (f.attr, ta))
                return a, "Ms"
            if f.attr == "maximum" and len(e.args) == 1:
                c = lit(e.args[0])
                if ta != "Ms" or c is None:
                    reject(e, "expected SPARSE.maximum(<literal>)")
                return "(mat_maximum %s %s)" % (c, a), "Ms"
            reject(e, "unsupported method .%s" % f.attr)
        if ast.unparse(f) == "np.sum" and len(e.args) == 1:
            a, ta = self.expr(e.args[0])
            if ta != "V":
                reject(e, "np.sum of shape %s" % ta)
            return "(vec_sum %s)" % a, "S"
        if ast.unparse(f) == "len" and len(e.args) == 1:
            a, ta = self.expr(e.args[0])
            if ta != "V":
                reject(e, "len of shape %s" % ta)
            return "(length %s)" % a, "N"
        reject(e, "unsupported call")

    # ------------------------------------------------------------------ statements
    def bind(self, name, term, ty):
        if ty not in COQTY:
            reject(ast.Name(id=name), "a value of shape %s cannot be bound to a name" % ty)
        if name in ("sources", "sinks", "committors_out", "np", "sparse"):
            reject(ast.Name(id=name), "assignment to reserved name")
        self.lets.append("let %s : %s := %s in" % (name, COQTY[ty], term))
        self.env[name] = ty
        self.rebound.add(name)

    def diag_reset(self, s):
        """X[(np.arange(N), np.arange(N))] = np.zeros(N)"""
        t = s.targets[0]
        if not (isinstance(t.value, ast.Name) and isinstance(t.slice, ast.Tuple) and len(t.slice.elts) == 2):
            return False
        names = []
        for x, fn in ((t.slice.elts[0], "np.arange"), (t.slice.elts[1], "np.arange"), (s.value, "np.zeros")):
            if not (isinstance(x, ast.Call) and ast.unparse(x.func) == fn and len(x.args) == 1 and not x.keywords
                    and isinstance(x.args[0], ast.Name)):
                return False
            names.append(x.args[0].id)
        if len(set(names)) != 1:
            reject(s, "diagonal reset: np.arange / np.arange / np.zeros must use the same length name")
        X, N = t.value.id, names[0]
        if self.env.get(X) not in MAT or self.env.get(N) != "N":
            reject(s, "diagonal reset on shapes %s, %s" % (self.env.get(X), self.env.get(N)))
        self.bind(X, "zero_diag_n %s %s" % (N, X), self.env[X])
        return True

    def where_assign(self, s):
        """X[np.where(X < c)] = v"""
        t = s.targets[0]
        w = t.slice
        if not (isinstance(t.value, ast.Name) and isinstance(w, ast.Call) and ast.unparse(w.func) == "np.where"
                and len(w.args) == 1 and not w.keywords):
            return False
        c = w.args[0]
        X = t.value.id
        if not (isinstance(c, ast.Compare) and len(c.ops) == 1 and isinstance(c.ops[0], ast.Lt)
                and isinstance(c.left, ast.Name) and c.left.id == X):
            reject(s, "expected X[np.where(X < c)] = v")
        cc, vv = lit(c.comparators[0]), lit(s.value)
        if cc is None or vv is None:
            reject(s, "expected literals in X[np.where(X < c)] = v")
        if self.env.get(X) != "Md":
            reject(s, "np.where(X < c) on shape %s (undefined on a sparse comparison)" % self.env.get(X))
        self.bind(X, "set_where_lt %s %s %s" % (cc, vv, X), "Md")
        return True

    def stmt(self, s):
        """-> the returned name for a `return`, else None"""
        if isinstance(s, ast.Return):
            if not (isinstance(s.value, ast.Name) and s.value.id in self.env):
                reject(s, "expected `return NAME`")
            return s.value.id
        if isinstance(s, ast.If):
            t = s.test
            if not (isinstance(t, ast.Call) and ast.unparse(t.func) == "sparse.issparse" and len(t.args) == 1
                    and not t.keywords and isinstance(t.args[0], ast.Name)):
                reject(s, "only `if sparse.issparse(NAME):` is translated")
            ty = self.env.get(t.args[0].id)
            if ty not in MAT:
                reject(s, "sparse.issparse of shape %s" % ty)
            if not s.body or not s.orelse:
                reject(s, "expected both a sparse and a dense branch")
            for x in (s.body if ty == "Ms" else s.orelse):
                if self.stmt(x) is not None:
                    reject(x, "return inside a branch")
            return None
        if isinstance(s, ast.Assign) and len(s.targets) == 1:
            t = s.targets[0]
            if isinstance(t, ast.Name):
                term, ty = self.expr(s.value)
                self.bind(t.id, term, ty)
                return None
            if isinstance(t, ast.Subscript) and (self.diag_reset(s) or self.where_assign(s)):
                return None
        reject(s, "unsupported statement")

    def unpack_helper(self, s):
        want = "%s(%s)" % (HELPER, ", ".join(ARGS))
        ok = isinstance(s, ast.Assign) and len(s.targets) == 1 and isinstance(s.targets[0], ast.Tuple) \
            and all(isinstance(x, ast.Name) for x in s.targets[0].elts) and ast.unparse(s.value) == want
        if not ok:
            reject(s, "expected `A, B, C, D = %s`" % want)
        names = [x.id for x in s.targets[0].elts]
        if len(names) != len(self.helper_types) or len(set(names)) != len(names):
            reject(s, "unpacking %d names from the %d results of %s" % (len(names), len(self.helper_types), HELPER))
        for n in names:
            if n in ("tprob", "sources", "sinks", "committors_out"):
                reject(s, "unpacking into reserved name %s" % n)
        self.lets.append("let '(%s) := gen_get_data populations committors_out in" % ", ".join(names))
        for n, ty in zip(names, self.helper_types):
            self.env[n] = ty
            self.rebound.add(n)


def tr_helper(fn):
    check_sig(fn, False)
    b = strip_doc(fn.body)
    pre = ["sources = np.array(sources).reshape((-1,))", "sinks = np.array(sinks).reshape((-1,))",
           "if populations is None:\n    populations = eq_probs(tprob)"]
    if [ast.unparse(x) for x in b[:3]] != pre:
        reject(fn, "%s: expected the normalisation of sources, sinks and the populations default first" % HELPER)
    f = Fn("dense", in_helper=True)
    rest = b[3:]
    if not rest or not isinstance(rest[-1], ast.Return):
        reject(fn, "%s: expected a final return" % HELPER)
    for s in rest[:-1]:
        if not (isinstance(s, ast.Assign) and len(s.targets) == 1 and isinstance(s.targets[0], ast.Name)):
            reject(s, "%s: only NAME = <expr> is translated here" % HELPER)
        if s.targets[0].id in ARGS:
            reject(s, "%s: rebinding of an argument" % HELPER)
        f.stmt(s)
    r = rest[-1].value
    if not (isinstance(r, ast.Tuple) and all(isinstance(x, ast.Name) and x.id in f.env for x in r.elts)):
        reject(rest[-1], "%s: expected `return NAME, NAME, ...`" % HELPER)
    if f.n_committor_calls != 1:
        reject(fn, "%s: expected exactly one committors(tprob, sources, sinks)" % HELPER)
    names = [x.id for x in r.elts]
    types = [f.env[n] for n in names]
    if any(t not in COQTY or t in MAT for t in types):
        reject(rest[-1], "%s: unexpected result shapes %s" % (HELPER, types))
    text = ("Definition gen_get_data (populations committors_out : vec) : %s :=\n  %s\n  (%s).\n"
            % (" * ".join(COQTY[t] for t in types), "\n  ".join(f.lets), ", ".join(names)))
    return text, types


def tr_fn(fn, kind, helper_types):
    check_sig(fn, True)
    b = strip_doc(fn.body)
    f = Fn(kind, helper_types=helper_types)
    if fn.name == "net_fluxes":
        body = b
    else:
        if not b:
            reject(fn, "empty body")
        f.unpack_helper(b[0])
        body = b[1:]
        if fn.name == "reactive_fluxes":
            # np.matrix is an ndarray subclass on which `*` is the matrix product: tprob has shape type Md
            # only behind this normalisation (same entries, so it leaves no trace in the Gallina text)
            if not body or ast.unparse(body[0]) != MATRIX_NORM:
                reject(fn, "reactive_fluxes: expected `%s` right after the call of %s"
                       % (MATRIX_NORM.replace("\n   ", ""), HELPER))
            body = body[1:]
    if not body or not isinstance(body[-1], ast.Return):
        reject(fn, "%s: expected a final return" % fn.name)
    ret = None
    for s in body:
        if ret is not None:
            reject(s, "statement after return")
        ret = f.stmt(s)
    return f.lets, ret, f.env[ret]


def translate(repo):
    tree, _ = parse_file(repo, REL)
    out = ["(* GENERATED by translator/tr_flux.py from %s -- do not edit *)" % REL,
           "From Coq Require Import List Arith QArith Bool.", "From EV Require Import Flux FluxBase.",
           "Import ListNotations.", "Open Scope Q_scope.", ""]
    text, htypes = tr_helper(find_func(tree, HELPER, REL))
    out.append("(* %s: (populations, len(populations), forward committors, reverse committors);\n"
               "   `committors_out` stands for committors(tprob, sources, sinks) *)" % HELPER)
    out.append(text)
    for name, want in (("reactive_fluxes", MAT), ("net_fluxes", MAT), ("reactive_populations", ("V",))):
        fn = find_func(tree, name, REL)
        got = {}
        for kind in ("dense", "sparse"):
            lets, ret, ty = tr_fn(fn, kind, htypes)
            if ty not in want:
                reject(fn, "%s returns shape %s" % (name, ty))
            got[kind] = (lets, ret, ty)
        if name == "reactive_populations":
            if got["dense"] != got["sparse"]:
                reject(fn, "reactive_populations depends on the container kind")
            lets, ret, ty = got["dense"]
            out.append("Definition gen_reactive_populations (populations committors_out : vec) : vec :=\n  %s\n  %s.\n"
                       % ("\n  ".join(lets), ret))
            continue
        for kind in ("dense", "sparse"):
            lets, ret, ty = got[kind]
            if ty != ("Md" if kind == "dense" else "Ms"):
                reject(fn, "%s on a %s matrix returns container kind %s" % (name, kind, ty))
            out.append("(* %s, %s transition matrix *)" % (name, "ndarray" if kind == "dense" else "scipy.sparse"))
            out.append("Definition gen_%s_%s (tprob : mat) (populations committors_out : vec) : mat :=\n  %s\n  %s.\n"
                       % (name, kind, "\n  ".join(lets), ret))
    return {"Gen/FluxGen.v": "\n".join(out)}


if __name__ == "__main__":
    import sys
    print(translate(sys.argv[1] if len(sys.argv) > 1 else "/repo")["Gen/FluxGen.v"])
