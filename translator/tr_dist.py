"""enspara/geometry/libdist.pyx: the plain-Python validation functions _check_is_2d,
_check_is_1d, _prepare_for_2d_to_1d_distance  ->  Gen/DistValidGen.v

The .pyx is not Python; the three `def` blocks are cut out textually (from `def name(` to the
next line at column 0) and parsed with `ast`.  Fail-closed: every statement / expression form
outside the small table below raises TranslatorReject.

Accepted statements
    _check_is_2d(A) / _check_is_1d(A)                        call of a translated checker
    if <cond>: raise exception.DataInvalid(...)                (no else)
    if out is None: <block> else: <block>                      followed by `return out`
    out = np.zeros((A.shape[k]), dtype=np.float64)
    return out
Accepted conditions
    len(A.shape) != k      A.shape[i] != B.shape[j]      A.dtype != np.float64
The error-message expressions inside `raise` are not translated (they only format text).
"""
import ast, os, re
from pyast import reject
from core import TranslatorReject

REL = "enspara/geometry/libdist.pyx"
CHECKERS = {"_check_is_2d": "gen_check_is_2d", "_check_is_1d": "gen_check_is_1d"}


def cut(src, name, public=False):
    m = re.search(r"^def %s\(.*?(?=^\S|\Z)" % re.escape(name), src, flags=re.S | re.M)
    if not m:
        raise TranslatorReject("%s: def %s not found" % (REL, name))
    try:
        tree = ast.parse(m.group(0))
    except SyntaxError as ex:
        raise TranslatorReject("%s: %s is not plain Python: %s" % (REL, name, ex))
    fn = tree.body[0]
    if not isinstance(fn, ast.FunctionDef) or len(tree.body) != 1:
        raise TranslatorReject("%s: unexpected shape of %s" % (REL, name))
    if public:
        d = fn.args.defaults
        if len(d) != 1 or not (isinstance(d[0], ast.Constant) and d[0].value is None):
            reject(fn, "public wrapper: expected the single default out=None")
        fn.args.defaults = []
    if fn.decorator_list or fn.args.defaults or fn.args.vararg or fn.args.kwarg or fn.args.kwonlyargs:
        reject(fn, "unexpected signature")
    return fn


def is_raise_datainvalid(s):
    if not (isinstance(s, ast.Raise) and isinstance(s.exc, ast.Call)):
        return False
    f = s.exc.func
    return isinstance(f, ast.Attribute) and f.attr == "DataInvalid" and isinstance(f.value, ast.Name) \
        and f.value.id == "exception"


def shape_sub(e, names):
    """A.shape[k] -> (A, k)"""
    if isinstance(e, ast.Subscript) and isinstance(e.value, ast.Attribute) and e.value.attr == "shape" \
            and isinstance(e.value.value, ast.Name) and e.value.value.id in names \
            and isinstance(e.slice, ast.Constant) and isinstance(e.slice.value, int) \
            and not isinstance(e.slice.value, bool) and e.slice.value >= 0:
        return e.value.value.id, e.slice.value
    reject(e, "expected NAME.shape[non-negative literal]")


def cond(test, names):
    """returns ('plain', coq-bool) or ('ne_at', a, i, b, j)"""
    if not (isinstance(test, ast.Compare) and len(test.ops) == 1 and isinstance(test.ops[0], ast.NotEq)):
        reject(test, "only `!=` comparisons are translated")
    l, r = test.left, test.comparators[0]
    if isinstance(l, ast.Call) and isinstance(l.func, ast.Name) and l.func.id == "len" and len(l.args) == 1 \
            and not l.keywords and isinstance(l.args[0], ast.Attribute) and l.args[0].attr == "shape" \
            and isinstance(l.args[0].value, ast.Name) and l.args[0].value.id in names \
            and isinstance(r, ast.Constant) and isinstance(r.value, int) and not isinstance(r.value, bool):
        return ("plain", "negb (rank %s =? %d)" % (l.args[0].value.id, r.value))
    if isinstance(l, ast.Attribute) and l.attr == "dtype" and isinstance(l.value, ast.Name) and l.value.id in names \
            and isinstance(r, ast.Attribute) and r.attr == "float64" and isinstance(r.value, ast.Name) \
            and r.value.id == "np":
        return ("plain", "negb (is_f64 %s)" % l.value.id)
    if isinstance(l, ast.Subscript) and isinstance(r, ast.Subscript):
        a, i = shape_sub(l, names)
        b, j = shape_sub(r, names)
        return ("ne_at", a, i, b, j)
    reject(test, "unsupported condition")


def raise_if(s, names, rest):
    if s.orelse or len(s.body) != 1 or not is_raise_datainvalid(s.body[0]):
        reject(s, "expected `if cond: raise exception.DataInvalid(...)` without else")
    c = cond(s.test, names)
    if c[0] == "plain":
        return "(if %s then VErr DataInvalid else %s)" % (c[1], rest)
    return "(ne_at %s %d %s %d (fun c => if c then VErr DataInvalid else %s))" % (c[1], c[2], c[3], c[4], rest)


def checker(fn):
    if len(fn.args.args) != 1 or len(fn.body) != 1 or not isinstance(fn.body[0], ast.If):
        reject(fn, "checker: expected one `if ...: raise`")
    a = fn.args.args[0].arg
    s = fn.body[0]
    if s.orelse or len(s.body) != 1 or not is_raise_datainvalid(s.body[0]):
        reject(s, "checker: expected `if cond: raise exception.DataInvalid(...)`")
    c = cond(s.test, {a})
    if c[0] != "plain":
        reject(s, "checker: unsupported condition")
    return "Definition %s (%s : aobj) : option verr :=\n  if %s then Some DataInvalid else None.\n" % (
        CHECKERS[fn.name], a, c[1])


def block(stmts, names, out_state):
    """out_state: 'caller' (out is the caller's non-None buffer), 'opt' (out : option aobj, not yet
    tested), or ('alloc', A, k).  Returns a Coq term of type vres."""
    if not stmts:
        reject(ast.Pass(), "control reaches the end of the function without `return out`")
    s, rest = stmts[0], stmts[1:]
    if isinstance(s, ast.Expr) and isinstance(s.value, ast.Call) and isinstance(s.value.func, ast.Name) \
            and s.value.func.id in CHECKERS:
        c = s.value
        if len(c.args) != 1 or c.keywords or not isinstance(c.args[0], ast.Name) or c.args[0].id not in names \
                or c.args[0].id == "out":
            reject(s, "unsupported checker call")
        return "(check_then (%s %s) %s)" % (CHECKERS[c.func.id], c.args[0].id, block(rest, names, out_state))
    if isinstance(s, ast.Return):
        if rest or not (isinstance(s.value, ast.Name) and s.value.id == "out"):
            reject(s, "expected final `return out`")
        if out_state == "caller":
            return "VUse"
        if isinstance(out_state, tuple):
            return "(alloc_at %s %d)" % (out_state[1], out_state[2])
        reject(s, "`return out` before `out is None` was decided")
    if isinstance(s, ast.Assign):
        if out_state != "none" or len(s.targets) != 1 or not isinstance(s.targets[0], ast.Name) \
                or s.targets[0].id != "out":
            reject(s, "only `out = np.zeros(...)` in the `out is None` branch is translated")
        v = s.value
        ok = isinstance(v, ast.Call) and isinstance(v.func, ast.Attribute) and v.func.attr == "zeros" \
            and isinstance(v.func.value, ast.Name) and v.func.value.id == "np" and len(v.args) == 1 \
            and len(v.keywords) == 1 and v.keywords[0].arg == "dtype" \
            and isinstance(v.keywords[0].value, ast.Attribute) and v.keywords[0].value.attr == "float64"
        if not ok:
            reject(s, "expected np.zeros((A.shape[k]), dtype=np.float64)")
        a, k = shape_sub(v.args[0], names - {"out"})
        return block(rest, names, ("alloc", a, k))
    if isinstance(s, ast.If):
        t = s.test
        if isinstance(t, ast.Compare) and len(t.ops) == 1 and isinstance(t.ops[0], ast.Is) \
                and isinstance(t.left, ast.Name) and t.left.id == "out" \
                and isinstance(t.comparators[0], ast.Constant) and t.comparators[0].value is None:
            if out_state != "opt" or not s.orelse:
                reject(s, "unexpected `out is None` test")
            return "(match out with\n   | None => %s\n   | Some out => %s\n   end)" % (
                block(list(s.body) + rest, names, "none"), block(list(s.orelse) + rest, names, "caller"))
        if out_state == "opt" and any(isinstance(n, ast.Name) and n.id == "out" for n in ast.walk(t)):
            reject(s, "`out` used before the `out is None` test")
        if out_state == "none" and any(isinstance(n, ast.Name) and n.id == "out" for n in ast.walk(t)):
            reject(s, "`out` used while it is None")
        return raise_if(s, names, block(rest, names, out_state))
    reject(s, "unsupported statement")


def translate(repo):
    p = os.path.join(repo, REL)
    try:
        with open(p) as f:
            src = f.read()
    except OSError as ex:
        raise TranslatorReject("%s: %s" % (REL, ex))
    out = ["(* GENERATED by translator/tr_dist.py from %s -- do not edit *)" % REL,
           "From Coq Require Import List ZArith Bool.", "From EV Require Import DistBase.",
           "Import ListNotations.", "Open Scope Z_scope.", ""]
    for name in ("_check_is_2d", "_check_is_1d"):
        out.append(checker(cut(src, name)))
    fn = cut(src, "_prepare_for_2d_to_1d_distance")
    args = [a.arg for a in fn.args.args]
    if args != ["X", "y", "out"]:
        reject(fn, "unexpected signature %s" % args)
    body = block(list(fn.body), {"X", "y", "out"}, "opt")
    out.append("Definition gen_prepare (X y : aobj) (out : option aobj) : vres :=\n  %s.\n" % body)
    # the public wrappers must call the validation first and pass its result on
    for pub, kern in (("euclidean", "_euclidean"), ("manhattan", "_manhattan"), ("hamming", "_hamming")):
        f = cut(src, pub, public=True)
        b = [s for s in f.body if not (isinstance(s, ast.Expr) and isinstance(s.value, ast.Constant))]
        want = "out = _prepare_for_2d_to_1d_distance(X, y, out)\n%s(X, y, out)\nreturn out" % kern
        got = "\n".join(ast.unparse(s) for s in b)
        if got != want or [a.arg for a in f.args.args] != ["X", "y", "out"]:
            reject(f, "public wrapper %s no longer has the shape validate; kernel; return out" % pub)
    return {"Gen/DistValidGen.v": "\n".join(out)}


if __name__ == "__main__":
    import sys
    print(translate(sys.argv[1] if len(sys.argv) > 1 else "/repo")["Gen/DistValidGen.v"])
