"""enspara/msm/transition_matrices.py (trim_disconnected, TrimMapping) and enspara/msm/msm.py
(MSM.fit's trimming step, via tr_msm.tr_fit)  ->  Gen/TrimGen.v over the vocabulary of Base/TrimBase.v.

Fail-closed typed translator for the NumPy statements of trim_disconnected.  Every name has one of
the types below, every expression / statement must have one of the listed shapes, anything else
raises TranslatorReject.  Arrays are translated as values, which is sound only because every
aliasing assignment (`x = y` for array y, np.asarray, np.array(.., copy=False)) is rejected.

types   IN  the `counts` argument before densification (ndarray or scipy.sparse container)
        ND  2-D integer ndarray        BM  boolean 2-D mask       LZ / LN / LB  1-D int / index / bool
        N   index / length             Z   integer scalar         B   bool         TY  a type object
        WH  result of np.where(mask)   IT  iterable of pairs      TMAP TrimMapping TM  typed result matrix
expressions
        type(x)                                   x: IN | ND
        np.array(x) | np.array(x, copy=True)      x: ND           (copy; IN rejected: densify first)
        x <op> s      op in < <= > >= == !=       x: ND, s: Z -> BM ;  == != with x: LN, s: N -> LB
        t is not u                                TY, TY -> B
        x.sum(axis=0|1)  ND -> LZ ;  np.sum(v)  LZ -> Z ;  v[m]  LZ, LB -> LZ ;  np.where(m) -> WH ; w[0] -> LN
        [e for i in range(n)]                     e: Z -> LZ
        np.arange(n), range(n) -> LN ;  len(x)  x: LN | ND -> N ;  np.zeros((a, b)[, dtype=<ND>.dtype]) -> ND
        x[np.ix_(r, c)]  ND -> ND ;  zip(a, b)  LN, LN -> IT ;  TrimMapping(it) -> TMAP
        connected_components(...)   bound against SciPy's signature (csgraph, directed=True,
                                    connection='weak', return_labels=True) -> (N, LN), may raise
        np.argmax(v)                LZ -> N, may raise
statements
        x = e ;  a, b = connected_components(...)
        if scipy.sparse.issparse(x): x = x.toarray()                (x: IN -> ND)
        x[m] = c        x: ND, m: BM      x[np.ix_(r, c)] = e       x[i, :] = c / x[:, i] = c   (i: WH | LN)
        if <B name>: ... else: ...        (names assigned in both branches survive)
        if type(x) is not t: x = t(x)     (x: ND -> TM)
        return m, x                       (TMAP, TM)
TrimMapping:  __slots__ == ['to_original'];  __init__: `if transformations: self.to_original = {..}`;
        to_mapped a property returning a dict comprehension over self.to_original.items();
        dict comprehensions {K: V for A, B in <iterable>} with K, V among A, B.
MSM.fit: tr_msm.tr_fit accepts exactly tcounts = assigns_to_counts(..); if self.trim: self.mapping_, tcounts =
        trim_disconnected(<args>) [+ logging] else: identity TrimMapping; self.tcounts_, .. = self.method(tcounts).
"""
import ast
from pyast import parse_file, find_func, reject, strip_doc
import tr_msm

REL = "enspara/msm/transition_matrices.py"
REL_MSM = "enspara/msm/msm.py"

ARRAY_TYPES = ("IN", "ND", "BM", "LZ", "LN", "LB", "WH", "IT", "TMAP", "TM")
CMP_ND = {ast.Lt: "np_lt", ast.LtE: "np_le", ast.Gt: "np_gt", ast.GtE: "np_ge", ast.Eq: "np_eq", ast.NotEq: "np_ne"}
CMP_LN = {ast.Eq: "np_eq_nat", ast.NotEq: "np_ne_nat"}
COQ_TY = {"IN": "counts_in", "Z": "Z", "B": "bool", "N": "nat"}
# SciPy is not part of /repo: its signature is fixed here
CC_SIG = [("csgraph", None), ("directed", True), ("connection", "weak"), ("return_labels", True)]


def dotted(e):
    try:
        return ast.unparse(e)
    except Exception:
        return None


class Fn:
    """Translation of one function body into a chain of lets; raising steps become matches."""

    def __init__(self):
        self.n = 0

    # -------------------------------------------------------------- expressions
    def expr(self, e, env, want=None):
        s, t = self._expr(e, env, want)
        if want is not None and t != want:
            reject(e, "type %s where %s expected" % (t, want))
        return s, t

    def _expr(self, e, env, want=None):
        if isinstance(e, ast.Name):
            if e.id not in env:
                reject(e, "unknown name %s" % e.id)
            return e.id, env[e.id]
        if isinstance(e, ast.Constant):
            v = e.value
            if isinstance(v, bool):
                return ("true" if v else "false"), "B"
            if isinstance(v, int):
                if want == "N":
                    if v < 0:
                        reject(e, "negative index")
                    return "%d" % v, "N"
                return "(%d)%%Z" % v, "Z"
            reject(e, "unsupported constant")
        if isinstance(e, ast.Compare):
            if len(e.ops) != 1:
                reject(e, "chained comparison")
            op, a, b = e.ops[0], e.left, e.comparators[0]
            as_, at = self._expr(a, env)
            if at == "ND":
                bs, _ = self.expr(b, env, "Z")
                if type(op) not in CMP_ND:
                    reject(e, "unsupported comparison on an array")
                return "(%s %s %s)" % (CMP_ND[type(op)], as_, bs), "BM"
            if at == "LN":
                bs, _ = self.expr(b, env, "N")
                if type(op) not in CMP_LN:
                    reject(e, "unsupported comparison on labels")
                return "(%s %s %s)" % (CMP_LN[type(op)], as_, bs), "LB"
            if at == "TY":
                bs, _ = self.expr(b, env, "TY")
                if isinstance(op, ast.IsNot):
                    return "(negb (container_eqb %s %s))" % (as_, bs), "B"
                if isinstance(op, ast.Is):
                    return "(container_eqb %s %s)" % (as_, bs), "B"
            reject(e, "unsupported comparison (left operand of type %s)" % at)
        if isinstance(e, ast.ListComp):
            if len(e.generators) != 1:
                reject(e, "nested comprehension")
            g = e.generators[0]
            if g.ifs or g.is_async or not isinstance(g.target, ast.Name) or g.target.id in env:
                reject(e, "unsupported comprehension")
            it = g.iter
            if not (isinstance(it, ast.Call) and dotted(it.func) == "range" and len(it.args) == 1 and not it.keywords):
                reject(e, "comprehension must run over range(n)")
            ns, _ = self.expr(it.args[0], env, "N")
            env2 = dict(env)
            env2[g.target.id] = "N"
            bs, _ = self.expr(e.elt, env2, "Z")
            return "(map (fun %s => %s) (py_range %s))" % (g.target.id, bs, ns), "LZ"
        if isinstance(e, ast.Subscript):
            vs, vt = self._expr(e.value, env)
            ix = self.ix(e.slice, env)
            if ix is not None:
                if vt != "ND":
                    reject(e, "np.ix_ selection from a non-matrix")
                return "(np_ix_get %s %s %s)" % (vs, ix[0], ix[1]), "ND"
            if vt == "WH":
                if not (isinstance(e.slice, ast.Constant) and e.slice.value == 0 and type(e.slice.value) is int):
                    reject(e, "only [0] of np.where(..)")
                return "(tuple1_get0 %s)" % vs, "LN"
            if vt == "LZ":
                ms, _ = self.expr(e.slice, env, "LB")
                return "(getitem_mask %s %s)" % (vs, ms), "LZ"
            reject(e, "unsupported subscript of type %s" % vt)
        if isinstance(e, ast.Call):
            return self.call(e, env)
        reject(e, "unsupported expression")

    def ix(self, e, env):
        if isinstance(e, ast.Call) and dotted(e.func) == "np.ix_":
            if len(e.args) != 2 or e.keywords:
                reject(e, "np.ix_ takes two index arrays here")
            r, _ = self.expr(e.args[0], env, "LN")
            c, _ = self.expr(e.args[1], env, "LN")
            return r, c
        return None

    def call(self, e, env):
        f = dotted(e.func)
        kw = {k.arg: k.value for k in e.keywords}
        if None in kw:
            reject(e, "**kwargs")
        if f == "type" and len(e.args) == 1 and not kw:
            s, t = self._expr(e.args[0], env)
            if t == "IN":
                return "(py_type %s)" % s, "TY"
            if t == "ND":
                return "(np_type %s)" % s, "TY"
            reject(e, "type() of a %s" % t)
        if f == "np.array" and len(e.args) == 1 and set(kw) <= {"copy"}:
            if "copy" in kw and not (isinstance(kw["copy"], ast.Constant) and kw["copy"].value is True):
                reject(e, "np.array(.., copy=<not True>) may alias its argument")
            s, t = self._expr(e.args[0], env)
            if t != "ND":
                reject(e, "np.array of a %s (a sparse container must be densified first)" % t)
            return "(np_array_copy %s)" % s, "ND"
        if isinstance(e.func, ast.Attribute) and e.func.attr == "sum" and not e.args and set(kw) == {"axis"}:
            s, _ = self.expr(e.func.value, env, "ND")
            ax = kw["axis"]
            if not (isinstance(ax, ast.Constant) and type(ax.value) is int and ax.value in (0, 1)):
                reject(e, "sum over an unsupported axis")
            return "(np_sum_axis%d %s)" % (ax.value, s), "LZ"
        if f == "np.sum" and len(e.args) == 1 and not kw:
            s, _ = self.expr(e.args[0], env, "LZ")
            return "(np_sum %s)" % s, "Z"
        if f == "np.where" and len(e.args) == 1 and not kw:
            s, _ = self.expr(e.args[0], env, "LB")
            return "(np_where %s)" % s, "WH"
        if f in ("np.arange", "range") and len(e.args) == 1 and not kw:
            s, _ = self.expr(e.args[0], env, "N")
            return "(%s %s)" % ("np_arange" if f == "np.arange" else "py_range", s), "LN"
        if f == "len" and len(e.args) == 1 and not kw:
            s, t = self._expr(e.args[0], env)
            if t not in ("LN", "ND", "LZ"):
                reject(e, "len() of a %s" % t)
            return "(length %s)" % s, "N"
        if f == "np.zeros" and len(e.args) == 1 and set(kw) <= {"dtype"}:
            sh = e.args[0]
            if not (isinstance(sh, ast.Tuple) and len(sh.elts) == 2):
                reject(e, "np.zeros needs a 2-tuple shape")
            if "dtype" in kw:
                d = kw["dtype"]
                if not (isinstance(d, ast.Attribute) and d.attr == "dtype" and isinstance(d.value, ast.Name)
                        and env.get(d.value.id) == "ND"):
                    reject(e, "np.zeros dtype must be the dtype of the counts")
            else:
                reject(e, "np.zeros without the dtype of the counts is a float array")
            r, _ = self.expr(sh.elts[0], env, "N")
            c, _ = self.expr(sh.elts[1], env, "N")
            return "(np_zeros %s %s)" % (r, c), "ND"
        if f == "zip" and len(e.args) == 2 and not kw:
            a, _ = self.expr(e.args[0], env, "LN")
            b, _ = self.expr(e.args[1], env, "LN")
            return "(py_zip %s %s)" % (a, b), "IT"
        if f == "TrimMapping" and len(e.args) == 1 and not kw:
            a, _ = self.expr(e.args[0], env, "IT")
            return "(gen_tm_init %s)" % a, "TMAP"
        reject(e, "unsupported call")

    # raising calls: -> (coq term of option type, result pattern, {name: type})
    def raising(self, e, env, targets):
        f = dotted(e.func) if isinstance(e, ast.Call) else None
        if f == "connected_components":
            bound = {}
            if len(e.args) > len(CC_SIG):
                reject(e, "too many arguments")
            for (n, _), a in zip(CC_SIG, e.args):
                bound[n] = a
            for k in e.keywords:
                if k.arg is None or k.arg not in dict(CC_SIG) or k.arg in bound:
                    reject(e, "bad keyword %s" % k.arg)
                bound[k.arg] = k.value
            if "csgraph" not in bound:
                reject(e, "connected_components without a graph")
            g, _ = self.expr(bound["csgraph"], env, "ND")

            def lit(name):
                if name not in bound:
                    return dict(CC_SIG)[name]
                v = bound[name]
                if not isinstance(v, ast.Constant):
                    reject(v, "%s must be a literal" % name)
                return v.value
            directed, conn, rl = lit("directed"), lit("connection"), lit("return_labels")
            if directed not in (True, False) or conn not in ("strong", "weak") or rl is not True:
                reject(e, "unsupported connected_components options")
            if len(targets) != 2:
                reject(e, "connected_components returns (n_components, labels)")
            return ("(connected_components %s %s %s)" % (g, "true" if directed else "false", conn.capitalize()),
                    "(%s, %s)" % tuple(targets), {targets[0]: "N", targets[1]: "LN"})
        if f == "np.argmax":
            if len(e.args) != 1 or e.keywords:
                reject(e, "np.argmax takes the sequence only")
            s, _ = self.expr(e.args[0], env, "LZ")
            if len(targets) != 1:
                reject(e, "np.argmax returns one index")
            return "(np_argmax %s)" % s, targets[0], {targets[0]: "N"}
        return None

    # -------------------------------------------------------------- statements
    @staticmethod
    def assigned(stmts):
        out = []
        for s in stmts:
            if isinstance(s, ast.Assign) and len(s.targets) == 1:
                t = s.targets[0]
                if isinstance(t, ast.Name):
                    out.append(t.id)
                elif isinstance(t, ast.Tuple) and all(isinstance(x, ast.Name) for x in t.elts):
                    out += [x.id for x in t.elts]
                elif isinstance(t, ast.Subscript) and isinstance(t.value, ast.Name):
                    out.append(t.value.id)
                else:
                    reject(s, "unsupported assignment target")
            else:
                reject(s, "unsupported statement inside a branch")
        seen, res = set(), []
        for v in out:
            if v not in seen:
                seen.add(v)
                res.append(v)
        return res

    def block(self, stmts, env, final, ind="  "):
        env = dict(env)
        if not stmts:
            return final(env)
        s, rest = stmts[0], stmts[1:]
        nxt = lambda en: self.block(rest, en, final, ind)
        if isinstance(s, ast.Assign):
            if len(s.targets) != 1:
                reject(s, "chained assignment")
            t = s.targets[0]
            names = [t.id] if isinstance(t, ast.Name) else \
                [x.id for x in t.elts] if isinstance(t, ast.Tuple) and all(isinstance(x, ast.Name) for x in t.elts) else None
            if names is not None:
                r = self.raising(s.value, env, names)
                if r is not None:
                    term, pat, tys = r
                    env.update(tys)
                    return "match %s with\n%s| None => None\n%s| Some %s =>\n%s%s\n%send" % (
                        term, ind, ind, pat, ind, nxt(env), ind)
                if len(names) != 1:
                    reject(s, "tuple assignment from a non-tuple")
                if isinstance(s.value, ast.Name):
                    reject(s, "assignment of a bare name (would alias an array)")
                es, ty = self._expr(s.value, env)
                if names[0] in env and env[names[0]] != ty:
                    reject(s, "%s changes type from %s to %s" % (names[0], env[names[0]], ty))
                env[names[0]] = ty
                return "let %s := %s in\n%s%s" % (names[0], es, ind, nxt(env))
            if isinstance(t, ast.Subscript) and isinstance(t.value, ast.Name):
                x = t.value.id
                if env.get(x) != "ND":
                    reject(s, "item assignment to a %s" % env.get(x))
                ix = self.ix(t.slice, env)
                if ix is not None:
                    vs, _ = self.expr(s.value, env, "ND")
                    return "let %s := np_ix_set %s %s %s %s in\n%s%s" % (x, x, ix[0], ix[1], vs, ind, nxt(env))
                cs, _ = self.expr(s.value, env, "Z")
                if not isinstance(s.value, ast.Constant):
                    reject(s, "only a constant can be broadcast here")
                sl = t.slice
                if isinstance(sl, ast.Tuple) and len(sl.elts) == 2:
                    full = [isinstance(q, ast.Slice) and q.lower is None and q.upper is None and q.step is None
                            for q in sl.elts]
                    if full == [False, True]:
                        which, idx = "setitem_rows", sl.elts[0]
                    elif full == [True, False]:
                        which, idx = "setitem_cols", sl.elts[1]
                    else:
                        reject(s, "expected x[idx, :] = c or x[:, idx] = c")
                    is_, it = self._expr(idx, env)
                    if it == "WH":
                        is_ = "(tuple1_get0 %s)" % is_      # a 1-tuple of index arrays selects the same rows
                    elif it != "LN":
                        reject(s, "row/column index of type %s" % it)
                    return "let %s := %s %s %s %s in\n%s%s" % (x, which, x, is_, cs, ind, nxt(env))
                ms, _ = self.expr(sl, env, "BM")
                return "let %s := setitem_mask %s %s %s in\n%s%s" % (x, x, ms, cs, ind, nxt(env))
            reject(s, "unsupported assignment target")
        if isinstance(s, ast.If):
            test = dotted(s.test)
            # if scipy.sparse.issparse(x): x = x.toarray()
            if isinstance(s.test, ast.Call) and dotted(s.test.func) == "scipy.sparse.issparse":
                a = s.test.args
                if not (len(a) == 1 and isinstance(a[0], ast.Name) and not s.test.keywords and not s.orelse
                        and len(s.body) == 1 and dotted(s.body[0]) == "%s = %s.toarray()" % (a[0].id, a[0].id)
                        and env.get(a[0].id) == "IN"):
                    reject(s, "expected `if scipy.sparse.issparse(x): x = x.toarray()` on the counts argument")
                x = a[0].id
                env[x] = "ND"
                return "let %s := (if issparse %s then toarray %s else ndarray_view %s) in\n%s%s" % (x, x, x, x, ind, nxt(env))
            # if type(x) is not t: x = t(x)
            if isinstance(s.test, ast.Compare) and isinstance(s.test.left, ast.Call) and dotted(s.test.left.func) == "type":
                cs, _ = self.expr(s.test, env, "B")
                x = s.test.left.args[0]
                tn = s.test.comparators[0]
                if not (isinstance(x, ast.Name) and isinstance(tn, ast.Name) and isinstance(s.test.ops[0], ast.IsNot)
                        and env.get(x.id) == "ND" and env.get(tn.id) == "TY" and not s.orelse and len(s.body) == 1
                        and dotted(s.body[0]) == "%s = %s(%s)" % (x.id, tn.id, x.id)):
                    reject(s, "expected `if type(x) is not t: x = t(x)`")
                env[x.id] = "TM"
                return "let %s := (if %s then construct %s %s else as_typed %s) in\n%s%s" % (
                    x.id, cs, tn.id, x.id, x.id, ind, nxt(env))
            if isinstance(s.test, ast.Name) and env.get(s.test.id) == "B":
                if not s.orelse:
                    reject(s, "if without else")
                va, vb = self.assigned(s.body), self.assigned(s.orelse)
                live = [v for v in va if v in vb]
                if not live:
                    reject(s, "branches define nothing in common")
                res = {}

                def fin(en, key):
                    res[key] = [en[v] for v in live]
                    return "Some (%s)" % ", ".join(live)
                b1 = self.block(s.body, env, lambda en: fin(en, 1), ind + "    ")
                b2 = self.block(s.orelse, env, lambda en: fin(en, 2), ind + "    ")
                if res[1] != res[2]:
                    reject(s, "branches give different types to %s" % live)
                for v, ty in zip(live, res[1]):
                    if v in env and env[v] != ty:
                        reject(s, "%s changes type in a branch" % v)
                    env[v] = ty
                return "match (if %s\n%s  then %s\n%s  else %s) with\n%s| None => None\n%s| Some (%s) =>\n%s%s\n%send" % (
                    test, ind, b1, ind, b2, ind, ind, ", ".join(live), ind, nxt(env), ind)
            reject(s, "unsupported if")
        if isinstance(s, ast.Return):
            if rest:
                reject(s, "code after return")
            v = s.value
            if not (isinstance(v, ast.Tuple) and len(v.elts) == 2):
                reject(s, "expected `return mapping, trimmed_counts`")
            a, _ = self.expr(v.elts[0], env, "TMAP")
            b, _ = self.expr(v.elts[1], env, "TM")
            return "Some (%s, %s)" % (a, b)
        reject(s, "unsupported statement")


# ------------------------------------------------------------------ TrimMapping
def dict_comp(e, src_ok):
    """{K: V for A, B in SRC} -> (lambda text, SRC node)"""
    if not (isinstance(e, ast.DictComp) and len(e.generators) == 1):
        reject(e, "expected a dict comprehension")
    g = e.generators[0]
    t = g.target
    if g.ifs or g.is_async or not (isinstance(t, ast.Tuple) and len(t.elts) == 2 and all(isinstance(x, ast.Name) for x in t.elts)):
        reject(e, "expected `for a, b in ...` without filter")
    a, b = t.elts[0].id, t.elts[1].id
    if a == b or not (isinstance(e.key, ast.Name) and isinstance(e.value, ast.Name)
                      and e.key.id in (a, b) and e.value.id in (a, b)):
        reject(e, "key and value must be the two loop names")
    if not src_ok(g.iter):
        reject(g.iter, "unexpected source of the comprehension")
    return "(fun p => match p with (%s, %s) => (%s, %s) end)" % (a, b, e.key.id, e.value.id)


def tr_trimmapping(tree):
    cls = None
    for n in tree.body:
        if isinstance(n, ast.ClassDef) and n.name == "TrimMapping":
            cls = n
    if cls is None or cls.bases or cls.keywords or cls.decorator_list:
        reject(cls or tree, "class TrimMapping (no bases, no decorators) not found")
    slots = [s for s in cls.body if isinstance(s, ast.Assign) and dotted(s.targets[0]) == "__slots__"]
    if len(slots) != 1 or dotted(slots[0].value) != "['to_original']":
        reject(cls, "expected __slots__ = ['to_original'] (to_mapped must be derived, not stored)")
    for s in cls.body:       # nothing may intercept attribute access
        if isinstance(s, ast.FunctionDef) and s.name in ("__getattr__", "__getattribute__", "__setattr__", "__new__"):
            reject(s, "TrimMapping overrides %s" % s.name)
    init = find_func(tree, "__init__", REL, cls="TrimMapping")
    if [a.arg for a in init.args.args] != ["self", "transformations"] or init.decorator_list:
        reject(init, "unexpected signature of TrimMapping.__init__")
    b = strip_doc(init.body)
    ok = (len(b) == 1 and isinstance(b[0], ast.If) and dotted(b[0].test) == "transformations" and not b[0].orelse
          and len(b[0].body) == 1 and isinstance(b[0].body[0], ast.Assign)
          and dotted(b[0].body[0].targets[0]) == "self.to_original")
    if not ok:
        reject(init, "expected `if transformations: self.to_original = {...}`")
    lam = dict_comp(b[0].body[0].value, lambda it: dotted(it) == "transformations")
    o = ["(* TrimMapping.__init__(self, transformations) *)",
         "Definition gen_tm_init (transformations : py_iter) : tm_obj :=",
         "  if truthy transformations",
         "  then {| slot_to_original := Some (dict_of (map %s (iter_items transformations))) |}" % lam,
         "  else {| slot_to_original := None |}.", ""]
    # the property to_mapped (getter); a setter may exist and must write to_original only
    getters = [f for f in cls.body if isinstance(f, ast.FunctionDef) and f.name == "to_mapped"]
    get = [f for f in getters if [dotted(d) for d in f.decorator_list] == ["property"]]
    sets = [f for f in getters if [dotted(d) for d in f.decorator_list] == ["to_mapped.setter"]]
    if len(get) != 1 or len(get) + len(sets) != len(getters):
        reject(cls, "expected exactly one @property to_mapped (plus at most a setter)")
    gb = strip_doc(get[0].body)
    if [a.arg for a in get[0].args.args] != ["self"] or len(gb) != 1 or not isinstance(gb[0], ast.Return):
        reject(get[0], "expected `return {...}` in to_mapped")
    lam = dict_comp(gb[0].value, lambda it: dotted(it) == "self.to_original.items()")
    o += ["(* TrimMapping.to_mapped (property): derived from to_original on every read *)",
          "Definition gen_tm_to_mapped (self : tm_obj) : option dict :=",
          "  match slot_to_original self with",
          "  | None => None",
          "  | Some to_original => Some (dict_of (map %s (dict_items to_original)))" % lam,
          "  end.", ""]
    for f in sets:
        sb = strip_doc(f.body)
        if [a.arg for a in f.args.args] != ["self", "value"] or len(sb) != 1 or not isinstance(sb[0], ast.Assign) \
                or dotted(sb[0].targets[0]) != "self.to_original":
            reject(f, "the to_mapped setter must assign self.to_original only")
        lam = dict_comp(sb[0].value, lambda it: dotted(it) == "value.items()")
        o += ["(* TrimMapping.to_mapped (setter) *)",
              "Definition gen_tm_set_to_mapped (self : tm_obj) (value : dict) : tm_obj :=",
              "  {| slot_to_original := Some (dict_of (map %s (dict_items value))) |}." % lam, ""]
    return o


# ------------------------------------------------------------------ module-level bindings
def check_bindings(tree):
    """np / scipy / connected_components must be the libraries; the names used must not be rebound."""
    imports = set()
    bound = {}

    def bind(nm):
        bound[nm] = bound.get(nm, 0) + 1
    for n in ast.walk(tree):
        if isinstance(n, (ast.Global, ast.Nonlocal)):
            reject(n, "global / nonlocal statement in the module")
    for n in tree.body:
        if isinstance(n, ast.Import):
            for a in n.names:
                imports.add(("import", a.name, a.asname))
                if a.asname is not None:
                    bind(a.asname)
                elif a.name.split(".")[0] != "scipy":
                    bind(a.name.split(".")[0])
        elif isinstance(n, ast.ImportFrom):
            for a in n.names:
                imports.add(("from", n.module, a.name, a.asname))
                bind(a.asname or a.name)
        elif isinstance(n, (ast.FunctionDef, ast.ClassDef)):
            bind(n.name)
        elif isinstance(n, ast.Expr) and isinstance(n.value, ast.Constant):
            pass
        elif isinstance(n, ast.Expr) and isinstance(n.value, ast.Call) and dotted(n.value.func) == "logger.setLevel":
            pass
        elif isinstance(n, ast.Assign) and all(isinstance(t, ast.Name) for t in n.targets):
            for t in n.targets:
                bind(t.id)
        else:
            reject(n, "unsupported module-level statement")
    need = [("import", "numpy", "np"), ("import", "scipy", None), ("import", "scipy.sparse", None),
            ("from", "scipy.sparse.csgraph", "connected_components", None)]
    for i in need:
        if i not in imports:
            reject(tree, "missing import %s" % (i,))
    want = {"np": 1, "connected_components": 1, "TrimMapping": 1, "trim_disconnected": 1, "scipy": 0,
            "type": 0, "len": 0, "zip": 0, "range": 0}
    for nm, k in want.items():
        if bound.get(nm, 0) != k:
            reject(tree, "%s is bound %d times at module level (expected %d)" % (nm, bound.get(nm, 0), k))


def check_local_shadowing(fn):
    for x in ast.walk(fn):
        if isinstance(x, ast.Name) and isinstance(x.ctx, (ast.Store, ast.Del)) and \
                x.id in ("np", "scipy", "connected_components", "TrimMapping", "type", "len", "zip", "range"):
            reject(x, "%s is rebound inside the function" % x.id)
        if isinstance(x, (ast.Global, ast.Nonlocal, ast.Import, ast.ImportFrom, ast.FunctionDef, ast.Lambda)) and x is not fn:
            reject(x, "unsupported construct inside the function")


# ------------------------------------------------------------------ driver
def translate(repo):
    tree, _ = parse_file(repo, REL)
    check_bindings(tree)
    o = ["(* GENERATED by translator/tr_trim.py from %s (trim_disconnected, TrimMapping)" % REL,
         "   and %s (MSM.fit, through translator/tr_msm.py) -- do not edit *)" % REL_MSM,
         "From Coq Require Import List ZArith Bool.", "From EV Require Import Trim TrimBase.",
         "Import ListNotations.", ""]
    o += tr_trimmapping(tree)
    fn = find_func(tree, "trim_disconnected", REL)
    if fn.decorator_list:
        reject(fn, "decorated trim_disconnected")
    check_local_shadowing(fn)
    sig = tr_msm.signature(fn, dict(tr_msm.CALLEE_TYPES["trim_disconnected"]))
    if [x[0] for x in sig] != ["counts", "threshold", "renumber_states"]:
        reject(fn, "unexpected parameters of trim_disconnected")
    env = {"counts": "IN", "threshold": "Z", "renumber_states": "B"}
    body = Fn().block(strip_doc(fn.body), env, lambda en: reject(fn, "trim_disconnected falls off its end"))
    o += ["(* trim_disconnected(counts, threshold, renumber_states); None = the call raises *)",
          "Definition gen_trim_disconnected (counts : counts_in) (threshold : Z) (renumber_states : bool)",
          "  : option (tm_obj * typed_mat) :=", "  " + body + ".", ""]
    for n, ty, d in sig:
        if d is not None:
            o.append("Definition gen_trim_default_%s : %s := %s%s." % (n, tr_msm.COQ_TY[ty], d, "%Z" if ty == "Z" else ""))
    o.append("")
    # MSM.fit: the statement shapes are checked by tr_msm.tr_fit (a fit that does not hand the counts to
    # trim_disconnected under `if self.trim`, or does not store its mapping, is rejected there)
    mt, _ = parse_file(repo, REL_MSM)
    imp = [n for n in mt.body if isinstance(n, ast.ImportFrom) and n.module == "transition_matrices" and n.level == 1]
    names = {a.name: a.asname for n in imp for a in n.names}
    for n in ("assigns_to_counts", "TrimMapping", "trim_disconnected"):
        if n not in names or names[n] is not None:
            reject(mt, "msm.py does not import %s from .transition_matrices" % n)
    for n in mt.body:
        if isinstance(n, (ast.FunctionDef, ast.ClassDef, ast.Assign)) and any(
                isinstance(x, ast.Name) and x.id in ("trim_disconnected", "TrimMapping") and isinstance(x.ctx, ast.Store)
                for x in ast.walk(n)) or getattr(n, "name", None) in ("trim_disconnected", "TrimMapping"):
            reject(n, "msm.py rebinds trim_disconnected / TrimMapping")
    init = find_func(mt, "__init__", REL_MSM, cls="MSM")
    _, stores = tr_msm.tr_init(init)
    attrs = [a for a, _ in stores]
    sigs = {"assigns_to_counts": tr_msm.signature(find_func(tree, "assigns_to_counts", REL),
                                                  dict(tr_msm.CALLEE_TYPES["assigns_to_counts"])),
            "trim_disconnected": sig}
    fit = find_func(mt, "fit", REL_MSM, cls="MSM")
    check_local_shadowing(fit)
    _, test, targs, _ = tr_msm.tr_fit(fit, attrs, sigs)
    if test != "(a_trim self)":
        reject(fit, "the trimming branch is not guarded by self.trim alone: %s" % test)
    if dict(stores).get("trim") != "trim":
        reject(init, "self.trim is not the constructor's trim argument")
    if targs[0] != "tcounts":
        reject(fit, "trim_disconnected is not called on the transition counts")
    o += ["(* MSM.fit after tcounts = assigns_to_counts(...): the (mapping_, tcounts) handed to self.method;",
          "   trim_disconnected(counts, threshold, renumber_states) called with the arguments of the source *)",
          "Definition gen_fit_trim (trim : bool) (tcounts : counts_in) : option (tm_obj * typed_mat) :=",
          "  if trim then gen_trim_disconnected tcounts %s%%Z %s" % (targs[1], targs[2]),
          "  else Some (gen_tm_init (py_zip (py_range (shape0 tcounts)) (py_range (shape0 tcounts))), unchanged tcounts).", ""]
    return {"Gen/TrimGen.v": "\n".join(o)}


if __name__ == "__main__":
    import sys
    print(translate(sys.argv[1] if len(sys.argv) > 1 else "/repo")["Gen/TrimGen.v"])
