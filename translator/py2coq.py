"""Fail-closed translator for straight-line scalar Python (assignments, augmented assignments,
if/elif/else without early exits, a final return) into Gallina let-chains.

Types: 'Z' (Python int), 'Q' (float/number, exact rational in the model), 'B' (bool),
'LQ'/'LZ' (sequence of numbers / ints), tuples of those.  Every name must have a type in the
environment; every construct outside the tables raises TranslatorReject.
Loops are not handled here: the per-file translators recognise the loop shape and plug the
translated tests/bodies into a fixed fold skeleton (which the correspondence run then checks).
"""
import ast
from pyast import reject

NUM = ("Z", "Q")


def coerce(s, frm, to):
    if frm == to:
        return s
    if frm == "Z" and to == "Q":
        return "(inject_Z %s)" % s
    raise ValueError("cannot coerce %s to %s" % (frm, to))


class Tr:
    def __init__(self, funcs=None):
        # funcs: name -> (coq_name, [arg types], ret type)
        self.funcs = funcs or {}

    # ------------------------------------------------------------------ expressions
    def expr(self, e, env, want=None):
        s, t = self._expr(e, env, want)
        if want is not None and t != want:
            try:
                s, t = coerce(s, t, want), want
            except ValueError:
                reject(e, "type %s where %s expected" % (t, want))
        return s, t

    def _num_const(self, v, want):
        if isinstance(v, bool):
            return ("true" if v else "false"), "B"
        if isinstance(v, int):
            if want == "Q":
                return "(Qmake (%d) 1)" % v, "Q"
            return "(%d)" % v, "Z"
        if isinstance(v, float):
            from fractions import Fraction
            fr = Fraction(v)
            return "(Qmake (%d) %d)" % (fr.numerator, fr.denominator), "Q"
        return None

    def _expr(self, e, env, want=None):
        if isinstance(e, ast.Constant):
            r = self._num_const(e.value, want)
            if r is None:
                reject(e, "unsupported constant")
            return r
        if isinstance(e, ast.Name):
            if e.id not in env:
                reject(e, "unknown name %s" % e.id)
            return e.id, env[e.id]
        if isinstance(e, ast.UnaryOp):
            if isinstance(e.op, ast.Not):
                s, _ = self.expr(e.operand, env, "B")
                return "(negb %s)" % s, "B"
            if isinstance(e.op, ast.USub):
                s, t = self._expr(e.operand, env, want)
                if t == "Q":
                    return "(Qopp %s)" % s, "Q"
                if t == "Z":
                    return "(Z.opp %s)" % s, "Z"
            reject(e, "unsupported unary operator")
        if isinstance(e, ast.BinOp):
            ops = {ast.Add: ("Z.add", "Qplus"), ast.Sub: ("Z.sub", "Qminus"), ast.Mult: ("Z.mul", "Qmult")}
            if type(e.op) in ops:
                ls, lt = self._expr(e.left, env, want if want in NUM else None)
                rs, rt = self._expr(e.right, env, want if want in NUM else None)
                if lt not in NUM or rt not in NUM:
                    reject(e, "arithmetic on non-numbers")
                t = "Q" if "Q" in (lt, rt) or want == "Q" else "Z"
                if t == "Q":  # re-translate constants directly as Q literals
                    ls, _ = self.expr(e.left, env, "Q")
                    rs, _ = self.expr(e.right, env, "Q")
                op = ops[type(e.op)][1 if t == "Q" else 0]
                return "(%s %s %s)" % (op, ls, rs), t
            if isinstance(e.op, ast.Div):
                ls, _ = self.expr(e.left, env, "Q")
                rs, _ = self.expr(e.right, env, "Q")
                return "(Qdiv %s %s)" % (ls, rs), "Q"
            reject(e, "unsupported binary operator")
        if isinstance(e, ast.BoolOp):
            op = "andb" if isinstance(e.op, ast.And) else "orb"
            parts = [self.expr(v, env, "B")[0] for v in e.values]
            s = parts[0]
            for p in parts[1:]:
                s = "(%s %s %s)" % (op, s, p)
            return s, "B"
        if isinstance(e, ast.Compare):
            terms = [e.left] + list(e.comparators)
            parts = []
            for a, op, b in zip(terms, e.ops, terms[1:]):
                parts.append(self.cmp(a, op, b, env))
            s = parts[0]
            for p in parts[1:]:
                s = "(andb %s %s)" % (s, p)
            return s, "B"
        if isinstance(e, ast.Subscript):
            ls, lt = self._expr(e.value, env)
            if lt not in ("LQ", "LZ"):
                reject(e, "subscript of non-list")
            et = lt[1]
            zero = "(Qmake 0 1)" if et == "Q" else "0%Z"
            idx = e.slice
            if isinstance(idx, ast.UnaryOp) and isinstance(idx.op, ast.USub) and isinstance(idx.operand, ast.Constant) \
                    and idx.operand.value == 1:
                return "(last %s %s)" % (ls, zero), et
            if isinstance(idx, ast.Slice):
                reject(e, "slices not supported here")
            is_, _ = self.expr(idx, env, "Z")
            return "(nth (Z.to_nat %s) %s %s)" % (is_, ls, zero), et
        if isinstance(e, ast.Call):
            f = e.func
            if e.keywords:
                reject(e, "keyword arguments not supported")
            if isinstance(f, ast.Name) and f.id == "int" and len(e.args) == 1:
                s, t = self._expr(e.args[0], env)
                if t != "Z":
                    reject(e, "int() of non-integer")
                return s, "Z"
            if isinstance(f, ast.Name) and f.id == "len" and len(e.args) == 1:
                s, t = self._expr(e.args[0], env)
                if t not in ("LQ", "LZ"):
                    reject(e, "len() of non-list")
                return "(Z.of_nat (length %s))" % s, "Z"
            name = f.id if isinstance(f, ast.Name) else None
            if name in self.funcs:
                cname, atys, rty = self.funcs[name]
                if len(atys) != len(e.args):
                    reject(e, "arity mismatch calling %s" % name)
                args = [self.expr(a, env, ty)[0] for a, ty in zip(e.args, atys)]
                return "(%s %s)" % (cname, " ".join(args)), rty
            reject(e, "unsupported call")
        if isinstance(e, ast.Tuple):
            parts = [self._expr(x, env) for x in e.elts]
            return "(%s)" % ", ".join(p[0] for p in parts), tuple(p[1] for p in parts)
        reject(e, "unsupported expression")

    def cmp(self, a, op, b, env):
        as_, at = self._expr(a, env)
        bs_, bt = self._expr(b, env)
        if at == "B" and bt == "B" and isinstance(op, (ast.Eq, ast.NotEq)):
            s = "(Bool.eqb %s %s)" % (as_, bs_)
            return s if isinstance(op, ast.Eq) else "(negb %s)" % s
        if at not in NUM or bt not in NUM:
            reject(a, "comparison of non-numbers")
        if "Q" in (at, bt):
            as_, _ = self.expr(a, env, "Q")
            bs_, _ = self.expr(b, env, "Q")
            tbl = {ast.LtE: "(Qle_bool %s %s)" % (as_, bs_), ast.GtE: "(Qle_bool %s %s)" % (bs_, as_),
                   ast.Lt: "(negb (Qle_bool %s %s))" % (bs_, as_), ast.Gt: "(negb (Qle_bool %s %s))" % (as_, bs_),
                   ast.Eq: "(Qeq_bool %s %s)" % (as_, bs_), ast.NotEq: "(negb (Qeq_bool %s %s))" % (as_, bs_)}
        else:
            tbl = {ast.LtE: "(Z.leb %s %s)" % (as_, bs_), ast.GtE: "(Z.leb %s %s)" % (bs_, as_),
                   ast.Lt: "(Z.ltb %s %s)" % (as_, bs_), ast.Gt: "(Z.ltb %s %s)" % (bs_, as_),
                   ast.Eq: "(Z.eqb %s %s)" % (as_, bs_), ast.NotEq: "(negb (Z.eqb %s %s))" % (as_, bs_)}
        if type(op) not in tbl:
            reject(a, "unsupported comparison")
        return tbl[type(op)]

    # ------------------------------------------------------------------ statements
    @staticmethod
    def assigned(stmts):
        out = []
        for s in stmts:
            if isinstance(s, ast.Assign):
                for t in s.targets:
                    if isinstance(t, ast.Name):
                        out.append(t.id)
                    elif isinstance(t, ast.Tuple):
                        out += [x.id for x in t.elts if isinstance(x, ast.Name)]
                    else:
                        reject(s, "unsupported assignment target")
            elif isinstance(s, ast.AugAssign):
                if not isinstance(s.target, ast.Name):
                    reject(s, "unsupported augmented-assignment target")
                out.append(s.target.id)
            elif isinstance(s, ast.If):
                out += Tr.assigned(s.body) + Tr.assigned(s.orelse)
            elif isinstance(s, ast.Expr) and isinstance(s.value, ast.Constant):
                pass
            elif isinstance(s, ast.Pass):
                pass
            else:
                reject(s, "unsupported statement inside a branch")
        seen, res = set(), []
        for v in out:
            if v not in seen:
                seen.add(v)
                res.append(v)
        return res

    def block(self, stmts, env, final, decl=None):
        """Translate stmts, then `final(env)` (a function giving the closing expression)."""
        decl = decl or {}
        env = dict(env)
        if not stmts:
            return final(env)
        s, rest = stmts[0], stmts[1:]
        if isinstance(s, ast.Expr) and isinstance(s.value, ast.Constant):
            return self.block(rest, env, final, decl)
        if isinstance(s, ast.Pass):
            return self.block(rest, env, final, decl)
        if isinstance(s, ast.Assign):
            if len(s.targets) != 1:
                reject(s, "chained assignment")
            t = s.targets[0]
            if isinstance(t, ast.Name):
                want = decl.get(t.id, env.get(t.id))
                es, ty = self.expr(s.value, env, want)
                env[t.id] = ty
                return "let %s := %s in\n  %s" % (t.id, es, self.block(rest, env, final, decl))
            if isinstance(t, ast.Tuple) and all(isinstance(x, ast.Name) for x in t.elts):
                es, ty = self._expr(s.value, env)
                if not (isinstance(ty, tuple) and len(ty) == len(t.elts)):
                    reject(s, "tuple unpacking of a non-tuple")
                for x, xt in zip(t.elts, ty):
                    env[x.id] = xt
                return "let '(%s) := %s in\n  %s" % (", ".join(x.id for x in t.elts), es,
                                                      self.block(rest, env, final, decl))
            reject(s, "unsupported assignment target")
        if isinstance(s, ast.AugAssign):
            if not isinstance(s.target, ast.Name) or s.target.id not in env:
                reject(s, "augmented assignment to unknown name")
            fake = ast.BinOp(left=ast.Name(id=s.target.id, ctx=ast.Load()), op=s.op, right=s.value)
            ast.copy_location(fake, s)
            es, ty = self.expr(fake, env, env[s.target.id])
            return "let %s := %s in\n  %s" % (s.target.id, es, self.block(rest, env, final, decl))
        if isinstance(s, ast.If):
            vs = self.assigned([s])
            for v in vs:
                if v not in env:
                    reject(s, "variable %s first assigned inside a branch" % v)
            cs, _ = self.expr(s.test, env, "B")
            tup = (lambda e: vs[0]) if len(vs) == 1 else (lambda e: "(%s)" % ", ".join(vs))
            if not vs:
                return self.block(rest, env, final, decl)
            # branches keep the declared types of the variables
            bdecl = dict(decl)
            for v in vs:
                bdecl.setdefault(v, env[v])
            b1 = self.block(s.body, env, tup, bdecl)
            b2 = self.block(s.orelse, env, tup, bdecl)
            pat = vs[0] if len(vs) == 1 else "'(%s)" % ", ".join(vs)
            return "let %s := (if %s then %s else %s) in\n  %s" % (pat, cs, b1, b2,
                                                                  self.block(rest, env, final, decl))
        if isinstance(s, ast.Return):
            if rest:
                reject(s, "code after return")
            es, ty = self._expr(s.value, env)
            return es
        reject(s, "unsupported statement")


COQ_TY = {"Z": "Z", "Q": "Q", "B": "bool", "LQ": "list Q", "LZ": "list Z"}


def coq_type(t):
    if isinstance(t, tuple):
        return "(" + " * ".join(coq_type(x) for x in t) + ")"
    return COQ_TY[t]
