"""enspara/ra/ra.py, WRITE path of RaggedArray  ->  Gen/RaOpsGen.v   (fail-closed)

What is regenerated from the current source (vocabulary: Base/RaOpsBase.v):
  * `__slots__`                 the slot list (any slot besides _data/_array/lengths, e.g. a cached `_starts`,
                                is rejected: append would have to reset it and the model has no such slot)
  * `RaggedArray.__setitem__`   for each of the 11 index forms the dispatch tells apart, the branch is followed
                                symbolically (isinstance tests on iis / first_dimension / second_dimension decided by
                                the form) and the ordered list of statements that touch the object is emitted
                                (`gen_setitem_path`), together with who computes the (row, col) cells
                                (`gen_setitem_cells`).  Statements on the way must be one of the pinned local
                                computations, a recognised effect, or a guard that raises before self is touched;
                                anything else: TranslatorReject.  A branch that writes `_data` and does not rebuild
                                `_array` (or the reverse) is emitted as it is -- and then `resync` is false and
                                `gen_step = step` fails in Proof/RaOpsGenProofs.v.
  * `RaggedArray.append`        the effect lists of the empty-array branch and of the general branch
  * `RaggedArray.__init__`      default of `copy`; per input class (nested rows / one flat row / flat + equal
                                lengths / flat + ragged lengths / empty) the ordered assignments of the three slots
                                with their sources classified (np.concatenate, np.array(.., copy=copy), ...; an
                                unclassifiable source such as np.asarray(array[0]) is rejected)
  * `map_operator`, `__invert__` the constructor call they return; the 23 operator methods -> operator table
  * properties `starts` (in-effect definition, vector expression over `self.lengths` only; must agree with the
                                read path's gen_starts) and `size` (all definitions, and which one is in effect)
  * `all/any/max/min/flatten`   pinned: reductions of `self._data`
The flat offset used by the write path is the read path's `_convert_from_2d` (Gen/RaGen.v: gen_conv2d) called with
`lengths=self.lengths, starts=self.starts`; the call text is pinned on every flat-writing branch."""
import ast
from pyast import parse_file, reject
from core import TranslatorReject
from tr_ragged import VecStarts

REL = "enspara/ra/ra.py"
U = ast.unparse
CLS = "RaggedArray"


def norm(text):
    """canonical text of a statement given as source"""
    return U(ast.parse(text).body[0])


# ============================================================================ class-level helpers
def class_node(tree):
    for n in tree.body:
        if isinstance(n, ast.ClassDef) and n.name == CLS:
            return n
    raise TranslatorReject("%s: class %s not found" % (REL, CLS))


def defs(cls, name):
    """all definitions of `name` in the class body, in order (Python keeps the LAST one)."""
    out = [n for n in cls.body if isinstance(n, ast.FunctionDef) and n.name == name]
    if not out:
        raise TranslatorReject("%s: %s.%s not found" % (REL, CLS, name))
    return out


def the_def(cls, name):
    d = defs(cls, name)
    if len(d) != 1:
        reject(d[-1], "%s.%s is defined %d times" % (CLS, name, len(d)))
    return d[0]


def body_of(fn):
    b = fn.body
    if b and isinstance(b[0], ast.Expr) and isinstance(b[0].value, ast.Constant) and isinstance(b[0].value.value, str):
        b = b[1:]
    return b


def sig(fn, args, defaults):
    a = [x.arg for x in fn.args.args]
    d = [U(x) for x in fn.args.defaults]
    if a != args or d != defaults or fn.args.vararg or fn.args.kwarg or fn.args.kwonlyargs or fn.args.posonlyargs:
        reject(fn, "unexpected signature %s defaults %s (expected %s %s)" % (a, d, args, defaults))


def touches_self(node):
    """does the node store to / delete an attribute or item of self, or call a method of self?"""
    for n in ast.walk(node):
        if isinstance(n, ast.Attribute) and isinstance(n.value, ast.Name) and n.value.id == "self":
            if isinstance(n.ctx, (ast.Store, ast.Del)):
                return True
        if isinstance(n, ast.Subscript) and isinstance(n.ctx, (ast.Store, ast.Del)) and "self" in [
                m.id for m in ast.walk(n.value) if isinstance(m, ast.Name)]:
            return True
        if isinstance(n, ast.Call) and isinstance(n.func, ast.Attribute) and isinstance(n.func.value, ast.Name) \
                and n.func.value.id == "self" and n.func.attr not in READERS:
            return True
        if isinstance(n, ast.Call) and U(n.func) in ("setattr", "object.__setattr__", "delattr"):
            return True
        if isinstance(n, (ast.AugAssign,)) and "self" in [m.id for m in ast.walk(n.target) if isinstance(m, ast.Name)]:
            return True
    return False


# ============================================================================ __slots__ and foreign writers
KNOWN_SLOTS = {"_data": "SData", "_array": "SArray", "lengths": "SLengths"}
# methods that may assign slots, and nothing else may
WRITERS = {"__init__", "__setitem__", "append"}
# methods of self a non-writer may call
READERS = {"__getitem__", "map_operator"}


def slots(cls):
    found = None
    for n in cls.body:
        if isinstance(n, ast.Assign) and len(n.targets) == 1 and U(n.targets[0]) == "__slots__":
            if found is not None:
                reject(n, "__slots__ assigned twice")
            found = n
    if found is None:
        raise TranslatorReject("%s: %s has no __slots__ (instances could carry cached attributes)" % (REL, CLS))
    if not isinstance(found.value, (ast.Tuple, ast.List)):
        reject(found, "__slots__ is not a literal tuple")
    names = []
    for e in found.value.elts:
        if not (isinstance(e, ast.Constant) and isinstance(e.value, str)):
            reject(found, "non-literal slot")
        if e.value not in KNOWN_SLOTS:
            reject(found, "slot %r is not one of the three representations: a cached attribute that the writers "
                          "(append) do not reset" % e.value)
        names.append(e.value)
    if sorted(names) != sorted(KNOWN_SLOTS):
        reject(found, "slots are %s" % names)
    if cls.bases and [U(b) for b in cls.bases] != ["object"]:
        reject(cls, "unexpected base classes (instances could have a __dict__)")
    return [KNOWN_SLOTS[n] for n in names]


def no_foreign_writers(cls):
    for n in cls.body:
        if isinstance(n, ast.FunctionDef) and n.name not in WRITERS and touches_self(n):
            reject(n, "method %s changes the object; only %s are modelled as writers" % (n.name, sorted(WRITERS)))
        if not isinstance(n, (ast.FunctionDef, ast.Assign, ast.Expr)):
            reject(n, "unexpected statement in the class body")
        if isinstance(n, ast.Assign) and U(n.targets[0]) != "__slots__":
            reject(n, "unexpected class attribute")


# ============================================================================ __setitem__
KINDS = {
    "KInt": {"iis": "int"}, "KSlice": {"iis": "slice"}, "KList": {"iis": "list"}, "KArr": {"iis": "ndarray"},
    "KSlSl": {"iis": "tuple", "first_dimension": "slice", "second_dimension": "slice"},
    "KSlInt": {"iis": "tuple", "first_dimension": "slice", "second_dimension": "int"},
    "KSlList": {"iis": "tuple", "first_dimension": "slice", "second_dimension": "seq"},
    "KIntSl": {"iis": "tuple", "first_dimension": "int", "second_dimension": "slice"},
    "KListSl": {"iis": "tuple", "first_dimension": "seq", "second_dimension": "slice"},
    "KPair": {"iis": "tuple", "first_dimension": "nonslice", "second_dimension": "nonslice"},
    "KMask": {"iis": "ragged"},
}
ORDER = ["KInt", "KSlice", "KList", "KArr", "KSlSl", "KSlInt", "KSlList", "KIntSl", "KListSl", "KPair", "KMask"]
TYPE_NAMES = {"numbers.Integral": "int", "slice": "slice", "list": "list", "np.ndarray": "ndarray", "tuple": "tuple"}


def is_a(ty, cls_name, node):
    """is a value of abstract type `ty` an instance of class `cls_name`?  Undecidable -> reject."""
    if ty in ("int", "slice", "list", "ndarray", "tuple"):
        return ty == cls_name
    if ty == "ragged":
        return False
    if ty == "seq":                      # a list / ndarray / anything that is neither a slice nor an int
        if cls_name in ("slice", "int", "tuple"):
            return False
        reject(node, "the branch taken depends on the sequence type of an index component")
    if ty == "nonslice":
        if cls_name == "slice":
            return False
        reject(node, "the branch taken depends on the type of a component of a (row, col) pair")
    reject(node, "unknown abstract type %s" % ty)


def dispatch_test(test, types):
    """decide an isinstance / type(...) is type(self) test from the index form; None if it is not such a test."""
    if isinstance(test, ast.Call) and U(test.func) == "isinstance" and len(test.args) == 2 and not test.keywords:
        subj, cl = test.args
        if not (isinstance(subj, ast.Name) and subj.id in ("iis", "first_dimension", "second_dimension")):
            return None
        if subj.id not in types:
            reject(test, "%s is tested before it is bound on this path" % subj.id)
        names = [U(e) for e in cl.elts] if isinstance(cl, ast.Tuple) else [U(cl)]
        for nm in names:
            if nm not in TYPE_NAMES:
                reject(test, "isinstance against unknown class %s" % nm)
        return any(is_a(types[subj.id], TYPE_NAMES[nm], test) for nm in names)
    if U(test) == "type(iis) is type(self)":
        return types["iis"] == "ragged"
    return None


P_VALUE_RAGGED = norm("value_is_ragged = type(value) is type(self)")
P_VALUE_UNWRAP = norm("if value_is_ragged:\n    value = value._array")
P_ROWCOPY = norm("new_array = np.array(self._array)")
P_ROWS_OBJ = norm("if value_is_ragged and not isinstance(iis, numbers.Integral):\n"
                  "    new_array = _rows_as_object_array(new_array)\n"
                  "    value = _rows_as_object_array(value)")
P_SPLIT = norm("first_dimension, second_dimension = iis")
P_ROWSLICE = norm("first_dimension_iis = _slice_to_list(first_dimension, length=len(self.lengths))")
P_IIS_SLICES = norm("iis, new_lengths = _get_iis_from_slices(first_dimension_iis, second_dimension, self.lengths)")
P_IIS_LIST1 = norm("iis, new_lengths = _get_iis_from_list(first_dimension_iis, [second_dimension])")
P_IIS_LIST = norm("iis, new_lengths = _get_iis_from_list(first_dimension_iis, second_dimension)")
P_ROWS_GIVEN = norm("first_dimension_iis = first_dimension")
P_CONV = norm("iis_1d = _convert_from_2d(iis, lengths=self.lengths, starts=self.starts)")
P_VALUE1D = norm("if _is_iterable(value):\n    if _is_iterable(value[0]):\n        value_1d = np.concatenate(value)\n"
                 "    else:\n        value_1d = value\nelse:\n    value_1d = value")
P_WHERE = norm("iis = where(iis)")
E_ROWWRITE = norm("new_array[iis] = value")
E_CTORCOPY = norm("self.__init__(new_array)")
E_INPLACE = norm("self._array[first_dimension][second_dimension] = value")
E_CTORVIEW = norm("self.__init__(self._array)")
E_FLAT = norm("self._data[iis_1d] = value_1d")
# the row view is rebuilt from the flat data by the module-level helper _row_table, whose whole text is pinned below
# (a 2-d reshape of the data when the rows are equally long -- typed rows -- else a 1-d object array of row slices)
E_REBUILD = norm("self._array = _row_table(self._data, self.lengths)")
ROW_TABLE_SRC = norm(
    "def _row_table(data, lengths):\n"
    "    lengths = np.asarray(lengths)\n"
    "    if len(lengths) > 0 and np.all(lengths == lengths[0]):\n"
    "        return data.reshape((len(lengths), lengths[0]) + data.shape[1:])\n"
    "    return np.array(partition_list(data, lengths), dtype='O')\n")


def row_table_pinned(tree):
    fns = [n for n in tree.body if isinstance(n, ast.FunctionDef) and n.name == "_row_table"]
    if len(fns) != 1:
        raise TranslatorReject("%s: expected exactly one module-level _row_table, found %d" % (REL, len(fns)))
    fn = fns[0]
    body = list(fn.body)
    if body and isinstance(body[0], ast.Expr) and isinstance(body[0].value, ast.Constant) and isinstance(body[0].value.value, str):
        body = body[1:]
    bare = ast.FunctionDef(name=fn.name, args=fn.args, body=body, decorator_list=fn.decorator_list, returns=fn.returns,
                           type_comment=None, lineno=0, col_offset=0)
    if fn.decorator_list or U(ast.fix_missing_locations(bare)) != ROW_TABLE_SRC:
        reject(fn, "_row_table differs from the pinned text (rows of the flat data: reshape when equally long, else "
                   "an object array of partition_list's slices)")
E_RECURSE = norm("self.__setitem__(iis, value)")
G_SCALAR_ROW_TEST = "not all((_is_iterable(row) for row in new_array))"


class SetItemWalk:
    def __init__(self, kind):
        self.kind = kind
        self.types = {"iis": KINDS[kind]["iis"]}
        self.sym = {}            # symbolic meaning of locals: new_array, rows, iis, iis_1d, value_1d
        self.effects = []
        self.cells = "CGNone"
        self.mutated = False     # has self been touched on this path?
        self.done = False

    def eff(self, e, mutates=True):
        self.effects.append(e)
        self.mutated = self.mutated or mutates

    def walk(self, stmts):
        for i, s in enumerate(stmts):
            if self.done:          # a `return` was executed on this path
                return
            self.stmt(s)

    def stmt(self, s):
        t = U(s)
        k = self.kind
        # ---- pinned local computations
        if t == P_VALUE_RAGGED or t == P_VALUE_UNWRAP:
            return
        if t == P_ROWCOPY:
            if self.mutated:
                reject(s, "row view copied after the object was changed")
            self.sym["new_array"] = "rowcopy"
            return
        if t == P_ROWS_OBJ:
            if self.sym.get("new_array") != "rowcopy":
                reject(s, "new_array is not the copy of the row view here")
            return
        if t == P_SPLIT:
            if self.types["iis"] != "tuple":
                reject(s, "iis unpacked although it is not a tuple")
            self.types["first_dimension"] = KINDS[k]["first_dimension"]
            self.types["second_dimension"] = KINDS[k]["second_dimension"]
            self.sym["iis"] = "pair"
            return
        if t == P_ROWSLICE:
            if self.types.get("first_dimension") != "slice":
                reject(s, "_slice_to_list of a non-slice")
            self.sym["rows"] = "rowslice"
            return
        if t == P_ROWS_GIVEN:
            self.sym["rows"] = "given"
            return
        if t == P_IIS_SLICES:
            if self.types.get("second_dimension") != "slice" or "rows" not in self.sym:
                reject(s, "_get_iis_from_slices misapplied")
            self.sym["iis"] = "cells"
            self.cells = "CGSlices" if self.sym["rows"] == "rowslice" else "CGRowsSlices"
            return
        if t == P_IIS_LIST1:
            if self.types.get("second_dimension") != "int" or self.sym.get("rows") != "rowslice":
                reject(s, "_get_iis_from_list(rows, [col]) misapplied")
            self.sym["iis"] = "cells"
            self.cells = "CGListInt"
            return
        if t == P_IIS_LIST:
            if self.types.get("second_dimension") != "seq" or self.sym.get("rows") != "rowslice":
                reject(s, "_get_iis_from_list(rows, cols) misapplied")
            self.sym["iis"] = "cells"
            self.cells = "CGList"
            return
        if t == P_CONV:
            if self.sym.get("iis") not in ("cells", "pair"):
                reject(s, "_convert_from_2d applied to something that is not a pair of index vectors")
            if self.sym["iis"] == "pair":
                self.cells = "CGPairs"
            self.sym["iis_1d"] = "conv2d"
            return
        if t == P_VALUE1D:
            self.sym["value_1d"] = "value1d"
            return
        if t == P_WHERE:
            if self.types["iis"] != "ragged":
                reject(s, "where() of a non-mask")
            self.sym["iis"] = "where"
            self.cells = "CGWhere"
            return
        # ---- effects
        if t == E_ROWWRITE:
            if self.sym.get("new_array") != "rowcopy" or self.types["iis"] not in ("int", "slice", "list", "ndarray"):
                reject(s, "row write outside the row-view route")
            self.eff("WRowCopy", mutates=False)
            self.sym["new_array"] = "written"
            return
        if t == E_CTORCOPY:
            if self.sym.get("new_array") != "written":
                reject(s, "constructor re-run on something that is not the written row copy")
            self.eff("WCtorCopy")
            return
        if t == E_INPLACE:
            if (self.types.get("first_dimension"), self.types.get("second_dimension")) != ("int", "slice"):
                reject(s, "in-place row write outside a[int, slice]")
            self.eff("WRowInPlace")
            return
        if t == E_CTORVIEW:
            self.eff("WCtorView")
            return
        if t == E_FLAT:
            if self.sym.get("iis_1d") != "conv2d" or self.sym.get("value_1d") != "value1d":
                reject(s, "flat write whose index / value do not come from _convert_from_2d / the value_1d block")
            self.eff("WFlat")
            return
        if t == E_REBUILD:
            self.eff("WRebuild")
            return
        if t == E_RECURSE:
            if self.sym.get("iis") != "where" or self.effects:
                reject(s, "recursive __setitem__ outside the mask branch")
            self.eff("WWhere", mutates=False)
            return
        # ---- control
        if isinstance(s, ast.Return):
            if s.value is not None:
                reject(s, "__setitem__ returns a value")
            self.done = True
            return
        if isinstance(s, ast.If):
            if U(s.test) == G_SCALAR_ROW_TEST and not s.orelse and len(s.body) == 1 and isinstance(s.body[0], ast.Raise):
                if self.mutated:
                    reject(s, "guard that raises after the object was changed (a rejected write would not be atomic)")
                return
            d = dispatch_test(s.test, self.types)
            if d is None:
                reject(s, "unrecognised statement on the %s path" % k)
            self.walk(s.body if d else s.orelse)
            return
        if isinstance(s, (ast.Expr,)) and isinstance(s.value, ast.Constant):
            return
        reject(s, "unrecognised statement on the %s path" % k)


def setitem_paths(cls):
    fn = the_def(cls, "__setitem__")
    sig(fn, ["self", "iis", "value"], [])
    if fn.decorator_list:
        reject(fn, "decorated __setitem__")
    paths, cells = {}, {}
    for k in ORDER:
        w = SetItemWalk(k)
        w.walk(body_of(fn))
        if not w.effects:
            reject(fn, "__setitem__ does nothing for index form %s" % k)
        paths[k], cells[k] = w.effects, w.cells
    return paths, cells


# ============================================================================ append
A_UNWRAP = norm("if type(values) is type(self):\n    values = values._array")
A_CONCAT = norm("concat_values = np.concatenate(values)")
A_DATA = norm("self._data = np.append(self._data, concat_values)")
A_NEWLENS = norm("if _is_iterable(values):\n    if _is_iterable(values[0]):\n"
                 "        new_lengths = np.array([len(i) for i in values])\n    else:\n"
                 "        new_lengths = [len(values)]\nelse:\n"
                 "    raise DataInvalid('Expected an array of values or a ragged array')")
A_LENS = norm("self.lengths = np.append(self.lengths, new_lengths)")
A_CTOR = norm("self.__init__(values)")


def append_paths(cls):
    fn = the_def(cls, "append")
    sig(fn, ["self", "values"], [])
    b = body_of(fn)
    if not (len(b) == 2 and U(b[0]) == A_UNWRAP and isinstance(b[1], ast.If) and U(b[1].test) == "len(self._data) == 0"):
        reject(fn, "append: expected the RaggedArray unwrap followed by `if len(self._data) == 0: ... else: ...`")

    def branch(stmts):
        eff, have = [], set()
        for s in stmts:
            t = U(s)
            if t == A_CTOR:
                eff.append("ACtorValues")
            elif t == A_CONCAT:
                if eff:
                    reject(s, "values concatenated after the object was changed")
                have.add("concat")
            elif t == A_DATA:
                if "concat" not in have:
                    reject(s, "concat_values unbound")
                eff.append("AData")
            elif t == A_NEWLENS:
                have.add("newlens")
            elif t == A_LENS:
                if "newlens" not in have:
                    reject(s, "new_lengths unbound")
                eff.append("ALens")
            elif t == E_REBUILD:
                eff.append("ARebuild")
            elif isinstance(s, ast.Expr) and isinstance(s.value, ast.Constant):
                pass
            else:
                reject(s, "unrecognised statement in append")
        return eff
    return branch(b[1].body), branch(b[1].orelse)


# ============================================================================ __init__
CLASSES = ["nested", "flat1", "given_rect", "given_ragged", "empty"]
TRUTH = {
    "len(array) > 0": {"nested": True, "flat1": True, "given_rect": True, "given_ragged": True, "empty": False},
    "lengths is None": {"nested": True, "flat1": True, "given_rect": False, "given_ragged": False, "empty": True},
    "_is_iterable(array[0])": {"nested": True, "flat1": False},
    "len(lengths) > 0": {"given_rect": True, "given_ragged": True},
    # np.asarray: a plain list of equal lengths must take the rectangular branch too (list == int is False)
    "np.all(np.asarray(lengths) == lengths[0])": {"given_rect": True, "given_ragged": False},
}
DSRC = {"np.concatenate(array)": "DConcat",
        norm("np.array([np.array(j) for i in array for j in i], dtype='O')"): "DObjRows",
        "np.array(array, copy=copy)": "DArrCopyFlag",
        "np.array(array)": "DArrFresh"}
LSRC = {norm("np.array([len(i) for i in array], dtype=int)"): "LRowLens",
        norm("np.array([len(array)], dtype=int)"): "LSingle",
        norm("np.array([], dtype=int)"): "LEmpty",
        # dtype=int: the stored lengths are platform integers whatever dtype the caller's array has (unsigned
        # lengths made `starts` a float array, narrow ones could wrap in any running total)
        norm("np.array(lengths, dtype=int)"): "LGivenCopy"}
RSRC = {norm("_row_table(self._data, self.lengths)"): "RPartSelf",
        norm("np.array(partition_list(self._data, lengths), dtype='O')"): "RPartGiven",
        norm("self._data.reshape((1, self.lengths[0]))"): "RReshapeOne",
        norm("self._data.reshape((len(lengths), lengths[0]) + self._data.shape[1:])"): "RReshapeRect",
        "[]": "REmptyList"}


def ctor_test(test, cl):
    if isinstance(test, ast.BoolOp):
        vals = []
        for v in test.values:
            r = ctor_test(v, cl)
            vals.append(r)
            if isinstance(test.op, ast.And) and not r:
                return False
            if isinstance(test.op, ast.Or) and r:
                return True
        return isinstance(test.op, ast.And)
    t = U(test)
    if t.startswith("(") and t.endswith(")"):
        t = t[1:-1]
    if t in TRUTH and cl in TRUTH[t]:
        return TRUTH[t][cl]
    reject(test, "constructor: cannot decide `%s` for input class %s" % (t, cl))


def harmless(s):
    """logging / warnings / validation calls and ifs around them: no effect on the object"""
    if isinstance(s, ast.Expr) and isinstance(s.value, ast.Constant):
        return True
    if isinstance(s, ast.Expr) and isinstance(s.value, ast.Call):
        f = U(s.value.func)
        return f in ("logger.debug", "logger.warning", "logger.info", "warnings.warn", "_ensure_ragged_data") \
            and not touches_self(s)
    if isinstance(s, ast.If):
        return all(harmless(x) for x in s.body + s.orelse) and not touches_self(s)
    if isinstance(s, ast.Pass):
        return True
    return False


class CtorWalk:
    def __init__(self, cl):
        self.cl = cl
        self.eff = []

    def assign(self, s):
        if not (isinstance(s, ast.Assign) and len(s.targets) == 1):
            return False
        tgt, rhs = U(s.targets[0]), U(s.value)
        table = {"self._data": ("CData", DSRC), "self.lengths": ("CLens", LSRC), "self._array": ("CRows", RSRC)}
        if tgt not in table:
            return False
        con, tbl = table[tgt]
        if rhs not in tbl:
            reject(s, "constructor: source of %s is not one of the known (copying) forms: %s" % (tgt, rhs))
        self.eff.append("%s %s" % (con, tbl[rhs]))
        return True

    def walk(self, stmts):
        for s in stmts:
            if self.assign(s):
                continue
            if isinstance(s, ast.Try):
                if s.orelse or s.finalbody or len(s.handlers) != 1 or len(s.body) != 1:
                    reject(s, "constructor: unexpected try shape")
                # the protected statement is a single slot assignment (no branching inside the try)
                if not self.assign(s.body[0]):
                    reject(s.body[0], "constructor: try protects something that is not a plain slot assignment")
                h = s.handlers[0]
                if len(h.body) != 1:
                    reject(h, "constructor: unexpected handler")
                hb = h.body[0]
                if isinstance(hb, ast.Raise):
                    continue
                # fall-back source for the same slot: must be classifiable too (recorded as an alternative)
                alt = CtorWalk(self.cl)
                if not alt.assign(hb) or alt.eff[0].split()[0] != self.eff[-1].split()[0]:
                    reject(hb, "constructor: handler is neither a raise nor a fall-back for the same slot")
                self.alts = getattr(self, "alts", []) + alt.eff
                continue
            if isinstance(s, ast.If) and not harmless(s):
                self.walk(s.body if ctor_test(s.test, self.cl) else s.orelse)
                continue
            if harmless(s):
                continue
            reject(s, "constructor: unrecognised statement")


def ctor_paths(cls):
    fn = the_def(cls, "__init__")
    a = [x.arg for x in fn.args.args]
    if a != ["self", "array", "lengths", "error_checking", "copy"] or fn.args.vararg or fn.args.kwarg \
            or fn.args.kwonlyargs or len(fn.args.defaults) != 3:
        reject(fn, "unexpected constructor signature %s" % a)
    d_len, d_ec, d_copy = fn.args.defaults
    if U(d_len) != "None" or U(d_ec) != "True":
        reject(fn, "unexpected defaults of lengths / error_checking")
    if not (isinstance(d_copy, ast.Constant) and isinstance(d_copy.value, bool)):
        reject(fn, "default of copy is not a boolean constant")
    # `copy` must not be rebound inside the constructor
    for n in ast.walk(fn):
        if isinstance(n, ast.Name) and n.id in ("copy", "array", "lengths") and isinstance(n.ctx, (ast.Store, ast.Del)):
            reject(n, "constructor rebinds its argument %s" % n.id)
    out, alts = {}, []
    for cl in CLASSES:
        w = CtorWalk(cl)
        w.walk(body_of(fn))
        kinds = [e.split()[0] for e in w.eff]
        if sorted(kinds) != ["CData", "CLens", "CRows"]:
            reject(fn, "constructor, input class %s: slots assigned are %s" % (cl, kinds))
        out[cl] = w.eff
        alts += getattr(w, "alts", [])
    return d_copy.value, out, sorted(set(alts))


# ============================================================================ operators
OPERATORS = ["__eq__", "__lt__", "__le__", "__gt__", "__ge__", "__ne__", "__add__", "__radd__", "__sub__", "__rsub__",
             "__mul__", "__rmul__", "__truediv__", "__rtruediv__", "__floordiv__", "__rfloordiv__", "__pow__",
             "__rpow__", "__mod__", "__rmod__", "__or__", "__xor__", "__and__"]


def operators(cls):
    fn = the_def(cls, "map_operator")
    sig(fn, ["self", "operator", "other"], [])
    b = body_of(fn)
    want = [norm("if type(other) is type(self):\n    other = other._data"),
            norm("new_data = getattr(self._data, operator)(other)"),
            norm("if new_data is NotImplemented:\n    return NotImplemented\nelse:\n"
                 "    return RaggedArray(array=new_data, lengths=self.lengths, error_checking=False)")]
    if [U(s) for s in b] != want:
        reject(fn, "map_operator: unexpected body (operators must map over self._data and rewrap a NEW RaggedArray "
                   "with self.lengths)")
    fn = the_def(cls, "__invert__")
    sig(fn, ["self"], [])
    want = [norm("new_data = self._data.__invert__()"), norm("return RaggedArray(new_data, lengths=self.lengths)")]
    if [U(s) for s in body_of(fn)] != want:
        reject(fn, "__invert__: unexpected body")
    table = []
    for n in cls.body:
        if not isinstance(n, ast.FunctionDef):
            continue
        calls = [c for c in ast.walk(n) if isinstance(c, ast.Call) and U(c.func) == "self.map_operator"]
        if not calls:
            continue
        b = body_of(n)
        ok = (len(b) == 1 and isinstance(b[0], ast.Return) and b[0].value is calls[0] and len(calls) == 1
              and len(calls[0].args) == 2 and not calls[0].keywords
              and isinstance(calls[0].args[0], ast.Constant) and isinstance(calls[0].args[0].value, str)
              and U(calls[0].args[1]) == "other" and [x.arg for x in n.args.args] == ["self", "other"]
              and not n.decorator_list)
        if not ok:
            reject(n, "operator method %s is not `return self.map_operator('<name>', other)`" % n.name)
        table.append((n.name, calls[0].args[0].value))
    names = [t[0] for t in table]
    if sorted(names) != sorted(OPERATORS) or len(set(names)) != len(names):
        reject(cls, "operator methods are %s" % names)
    return table


# ============================================================================ derived attributes and reductions
def prop_defs(cls, name):
    ds = defs(cls, name)
    for d in ds:
        if [U(x) for x in d.decorator_list] != ["property"]:
            reject(d, "%s is not a plain property" % name)
        sig(d, ["self"], [])
    return ds


def starts_expr(cls):
    ds = prop_defs(cls, "starts")
    terms = []
    for d in ds:
        b = body_of(d)
        if not (len(b) == 1 and isinstance(b[0], ast.Return) and b[0].value is not None):
            reject(d, "starts is not a single expression of self.lengths (a cached value would survive append)")
        terms.append(VecStarts().expr(b[0].value))        # leaves other than `self.lengths` are rejected there
    return terms


SIZES = {"len(self._data)": "SzLenData", "self._data.size": "SzDataSize"}


def size_defs(cls):
    out = []
    for d in prop_defs(cls, "size"):
        b = body_of(d)
        if not (len(b) == 1 and isinstance(b[0], ast.Return) and U(b[0].value) in SIZES):
            reject(d, "size: unexpected definition")
        out.append(SIZES[U(b[0].value)])
    return out


REDUCTIONS = {"all": "return np.all(self._data)", "any": "return np.any(self._data)", "max": "return self._data.max()",
              "min": "return self._data.min()", "flatten": "return self._data.flatten()"}


def reductions(cls):
    for name, text in REDUCTIONS.items():
        fn = the_def(cls, name)
        sig(fn, ["self"], [])
        if fn.decorator_list or [U(s) for s in body_of(fn)] != [norm(text)]:
            reject(fn, "%s: expected `%s`" % (name, text))
    fn = the_def(cls, "__len__")
    if [U(s) for s in body_of(fn)] != ["return len(self._array)"]:
        reject(fn, "__len__: expected `return len(self._array)`")


# ============================================================================ the translation
def clist(xs):
    return "[%s]" % "; ".join(xs)


def translate(repo):
    tree, _ = parse_file(repo, REL)
    cls = class_node(tree)
    row_table_pinned(tree)
    no_foreign_writers(cls)
    sl = slots(cls)
    paths, cells = setitem_paths(cls)
    app_empty, app_general = append_paths(cls)
    copy_default, ctor, alts = ctor_paths(cls)
    table = operators(cls)
    starts_terms = starts_expr(cls)
    sizes = size_defs(cls)
    reductions(cls)

    out = ["(* GENERATED by translator/tr_ragged_ops.py from %s -- do not edit *)" % REL,
           "From Coq Require Import List ZArith Bool String.", "From EV Require Import PySlice RaBase RaGen RaOpsBase.",
           "Import ListNotations.", "Open Scope Z_scope.", ""]
    out.append("(* __slots__ *)\nDefinition gen_slots : list slot := %s.\n" % clist(sl))
    out.append("(* RaggedArray.__setitem__: the statements that touch the object, per index form *)")
    out.append("Definition gen_setitem_path (k : ikind) : list weff :=\n  match k with\n%s\n  end.\n" %
               "\n".join("  | %s => %s" % (k, clist(paths[k])) for k in ORDER))
    out.append("Definition gen_setitem_cells (k : ikind) : cellgen :=\n  match k with\n%s\n  end.\n" %
               "\n".join("  | %s => %s" % (k, cells[k]) for k in ORDER))
    out.append("(* the flat offsets written: _convert_from_2d(iis, lengths=self.lengths, starts=self.starts) *)")
    out.append("Definition gen_ops_starts (lengths : list Z) : list Z := %s.\n" % starts_terms[-1])
    out.append("Definition gen_starts_defs : list (list Z -> list Z) := %s.\n" %
               clist("(fun lengths => %s)" % t for t in starts_terms))
    out.append("Definition gen_w_offset (lengths : list Z) (r c : Z) : option Z :=\n"
               "  gen_conv2d lengths (gen_ops_starts lengths) r c.\n")
    out.append("(* RaggedArray.append: `if len(self._data) == 0` branch, general branch *)")
    out.append("Definition gen_append_empty_path : list aeff := %s.\n" % clist(app_empty))
    out.append("Definition gen_append_path : list aeff := %s.\n" % clist(app_general))
    out.append("(* RaggedArray.__init__ *)")
    out.append("Definition gen_ctor_copy_default : bool := %s.\n" % ("true" if copy_default else "false"))
    for cl in CLASSES:
        out.append("Definition gen_ctor_%s : list ceff := %s.\n" % (cl, clist(ctor[cl])))
    out.append("(* fall-back sources inside try/except *)\nDefinition gen_ctor_fallbacks : list ceff := %s.\n" % clist(alts))
    out.append("(* map_operator / __invert__: the constructor call returned *)")
    out.append("Definition gen_map_operator_call : opcall := mk_opcall true MSelfDataMapped LASelf true None.\n")
    out.append("Definition gen_invert_call : opcall := mk_opcall false MSelfDataMapped LASelf true None.\n")
    out.append("Definition gen_operator_table : list (string * string) :=\n  %s.\n" %
               clist('("%s", "%s")%%string' % t for t in table))
    out.append("(* size: every definition in the class body; Python keeps the last *)")
    out.append("Definition gen_size_defs : list sizedef := %s.\n" % clist(sizes))
    out.append("Definition gen_size_in_effect : sizedef := %s.\n" % sizes[-1])
    return {"Gen/RaOpsGen.v": "\n".join(out)}


if __name__ == "__main__":
    import sys
    repo = sys.argv[1] if len(sys.argv) > 1 else "/repo"
    for rel, text in translate(repo).items():
        if len(sys.argv) > 2:
            with open(sys.argv[2], "w") as f:
                f.write(text)
        else:
            print(text)
