"""Mutation rig for translator/tr_mpi.py: scratch copy of the three sources + scratch coq dir with copied .vo.
usage: tr_mpi_selftest.py [substring of a mutation name ...]   (default: all mutations)
Every mutant must print REJECTED / PROOF-BREAKS / GEN-DOES-NOT-COMPILE; HARMLESS rewrites print SAME-GEN or REJECTED."""
import os, shutil, subprocess, sys
sys.path.insert(0, "/verif/harness"); sys.path.insert(0, "/verif/translator")
import tr_mpi
from core import TranslatorReject

SCR = "/tmp/c14r3/repo"
COQ = "/tmp/c14r3/coq"      # scratch: never the shared /verif/coq
FILES = ["enspara/mpi/ops.py", "enspara/cluster/kcenters.py", "enspara/cluster/kmedoids.py"]
OPS, KC, KM = FILES


def setup_coq():
    if os.path.exists(COQ):
        shutil.rmtree(COQ)
    for d in ("Base", "Model", "Proof", "Gen"):
        os.makedirs(os.path.join(COQ, d))
        for f in os.listdir(os.path.join("/verif/coq", d)):
            if f.endswith(".vo"):
                shutil.copy(os.path.join("/verif/coq", d, f), os.path.join(COQ, d, f))
    shutil.copy("/verif/coq/Proof/MpiGenProofs.v", COQ + "/Proof/MpiGenProofs.v")
    for f in ("MpiGen.vo",):
        p = os.path.join(COQ, "Gen", f)
        if os.path.exists(p):
            os.remove(p)
    os.remove(COQ + "/Proof/MpiGenProofs.vo")


def fresh_repo():
    if os.path.exists(SCR):
        shutil.rmtree(SCR)
    for f in FILES:
        os.makedirs(os.path.dirname(os.path.join(SCR, f)), exist_ok=True)
        shutil.copy(os.path.join("/repo", f), os.path.join(SCR, f))


BASE = None


def run(name, file, old, new, count=1):
    fresh_repo()
    p = os.path.join(SCR, file)
    s = open(p).read()
    if s.count(old) < 1:
        print("%-58s MUTATION-DID-NOT-APPLY" % name)
        return
    s = s.replace(old, new, count)
    open(p, "w").write(s)
    try:
        compile(s, p, "exec")
    except SyntaxError as ex:
        print("%-58s BAD-MUTANT (syntax) %s" % (name, ex))
        return
    try:
        text = tr_mpi.translate(SCR)["Gen/MpiGen.v"]
    except TranslatorReject as ex:
        print("%-58s REJECTED   %s" % (name, str(ex)[:110]))
        return
    if text == BASE:
        print("%-58s SAME-GEN   (generated file identical to the unmutated one)" % name)
        return
    open(COQ + "/Gen/MpiGen.v", "w").write(text)
    r = subprocess.run(["timeout", "300", "coqc", "-q", "-R", ".", "EV", "Gen/MpiGen.v"], cwd=COQ, capture_output=True, text=True)
    if r.returncode != 0:
        print("%-58s GEN-DOES-NOT-COMPILE %s" % (name, (r.stdout + r.stderr).strip().splitlines()[-1][:100]))
        return
    r = subprocess.run(["timeout", "300", "coqc", "-q", "-R", ".", "EV", "Proof/MpiGenProofs.v"], cwd=COQ, capture_output=True, text=True)
    if r.returncode != 0:
        lines = (r.stdout + r.stderr).strip().splitlines()
        loc = [l for l in lines if l.startswith("File")]
        print("%-58s PROOF-BREAKS %s" % (name, loc[0][:80] if loc else lines[-1][:80]))
        return
    print("%-58s SURVIVES (gen differs, proofs still compile)" % name)


if __name__ == "__main__":
    setup_coq()
    BASE = tr_mpi.translate("/repo")["Gen/MpiGen.v"]
    M = [
        # --- ops.py: strides / offsets / owner tests / reductions
        ("cli: stride rank::size -> rank+1::size", OPS, "file_origin_ra[rank::mpi.size()]", "file_origin_ra[rank + 1::mpi.size()]"),
        ("cli: swapped rank/size  size::rank", OPS, "file_origin_ra[rank::mpi.size()]", "file_origin_ra[mpi.size()::rank]"),
        ("cli: loop target order swapped", OPS, "for rank, local_fid in local_ctr_inds", "for local_fid, rank in local_ctr_inds"),
        ("cli: arange(sum) -> arange(sum+1)", OPS, "global_indexing = np.arange(np.sum(global_lengths))", "global_indexing = np.arange(np.sum(global_lengths) + 1)"),
        ("asa: global_arr[i::size] -> [i+1::size]", OPS, "global_arr[i::mpi.size()]", "global_arr[i + 1::mpi.size()]"),
        ("asa: stride size -> size+1", OPS, "global_arr[i::mpi.size()]", "global_arr[i::mpi.size() + 1]"),
        ("asa: bcast root=i -> root=0", OPS, "mpi.comm.bcast(local_arr, root=i)", "mpi.comm.bcast(local_arr, root=0)"),
        ("asa: guard > 0 -> >= 0", OPS, "if not np.all(local_arr > 0)", "if not np.all(local_arr >= 0)"),
        ("asa: trivial test size == 1 -> size <= 2", OPS, "if mpi.size() == 1:\n        return local_arr", "if mpi.size() <= 2:\n        return local_arr"),
        ("asa: allreduce SUM -> MAX", OPS, "total_dim1 = mpi.comm.allreduce(len(local_arr), op=mpi.mpi4py.SUM)", "total_dim1 = mpi.comm.allreduce(len(local_arr), op=mpi.mpi4py.MAX)"),
        ("asr: local_lengths stride rank::size -> rank::size-?", OPS, "local_lengths = global_lengths[rank::mpi.size()]", "local_lengths = global_lengths[rank::mpi.size() + 1]"),
        ("asr: many test > 1 -> >= 1", OPS, "if len(local_lengths) > 1:", "if len(local_lengths) >= 1:"),
        ("asr: many test > 1 -> > 2", OPS, "if len(local_lengths) > 1:", "if len(local_lengths) > 2:"),
        ("asr: global_ra[rank::size] -> [rank:]", OPS, "global_ra[rank::mpi.size()] = rank_ra", "global_ra[rank:] = rank_ra"),
        ("asr: one-row target global_ra[rank] -> [0]", OPS, "global_ra[rank] = rank_array", "global_ra[0] = rank_array"),
        ("asr: bcast root=rank -> root=0", OPS, "rank_array = mpi.comm.bcast(local_array, root=rank)", "rank_array = mpi.comm.bcast(local_array, root=0)"),
        ("max: allreduce MAX -> MIN", OPS, "global_max = mpi.comm.allreduce(local_max, op=mpi.mpi4py.MAX)", "global_max = mpi.comm.allreduce(local_max, op=mpi.mpi4py.MIN)"),
        ("max: allreduce MAX -> SUM", OPS, "global_max = mpi.comm.allreduce(local_max, op=mpi.mpi4py.MAX)", "global_max = mpi.comm.allreduce(local_max, op=mpi.mpi4py.SUM)"),
        ("mean: weighted wrongly (mean of local means)", OPS, "local_sum = np.sum(local_array)\n    local_len = len(local_array)", "local_sum = np.sum(local_array) / len(local_array)\n    local_len = 1"),
        ("mean: global_len allreduces local_sum", OPS, "global_len = mpi.comm.allreduce(local_len, op=mpi.mpi4py.SUM)", "global_len = mpi.comm.allreduce(local_sum, op=mpi.mpi4py.SUM)"),
        ("mean: quotient inverted", OPS, "return global_sum / global_len", "return global_len / global_sum"),
        ("mean: divides by size", OPS, "return global_sum / global_len", "return global_sum / mpi.size()"),
        ("df: owner test rank == owner -> rank != owner", OPS, "if mpi.rank() == owner_rank:\n            frame = data[world_index]\n        else:\n            frame = np.empty_like(data[0])\n\n    mpi", "if mpi.rank() != owner_rank:\n            frame = data[world_index]\n        else:\n            frame = np.empty_like(data[0])\n\n    mpi"),
        ("df: both branches owner test == 0", OPS, "if mpi.rank() == owner_rank:", "if mpi.rank() == 0:", 2),
        ("df: Bcast root=owner_rank -> root=0", OPS, "mpi.comm.Bcast(frame, root=owner_rank)", "mpi.comm.Bcast(frame, root=0)"),
        ("df: bad-owner test >= -> >", OPS, "if owner_rank >= mpi.size():", "if owner_rank > mpi.size():"),
        ("df: frame index world_index -> world_index+1 (both)", OPS, "data[world_index]", "data[world_index + 1]", 2),
        ("randind: stripe r::size -> r+1::size", OPS, "np.arange(sum(n_states))[r::mpi.size()]", "np.arange(sum(n_states))[r + 1::mpi.size()]"),
        ("randind: contiguous blocks instead of stripes", OPS, "np.arange(sum(n_states))[r::mpi.size()]", "np.arange(sum(n_states))[r:r + 1]"),
        ("randind: draw bound sum -> sum+1", OPS, "global_index = random_state.randint(sum(n_states))", "global_index = random_state.randint(sum(n_states) + 1)"),
        ("randind: drawer rank 0 -> 1 (root stays 0)", OPS, "if mpi.rank() == 0:\n        # this is modeled", "if mpi.rank() == 1:\n        # this is modeled"),
        ("randind: empty test < 1 -> < 2", OPS, "if sum(n_states) < 1:", "if sum(n_states) < 2:"),
        ("randind: returns (local_index, owner_rank)", OPS, "return (owner_rank, local_index)", "return (local_index, owner_rank)"),
        ("randind: last hit instead of first", OPS, "owner_rank, local_index = owner_rank[0], local_index[0]", "owner_rank, local_index = owner_rank[-1], local_index[-1]"),
        # --- kcenters.py
        ("kc: owner = argmax -> argmin", KC, "new_cluster_center_owner = np.argmax(dist_vals)", "new_cluster_center_owner = np.argmin(dist_vals)"),
        ("kc: tie-break: last maximal rank", KC, "new_cluster_center_owner = np.argmax(dist_vals)", "new_cluster_center_owner = len(dist_vals) - 1 - np.argmax(dist_vals[::-1])"),
        ("kc: index = dist_locs[owner] -> dist_locs[0]", KC, "new_cluster_center_index = dist_locs[new_cluster_center_owner]", "new_cluster_center_index = dist_locs[0]"),
        ("kc: gathered argmax/max swapped", KC, "mpi.comm.allgather(np.argmax(distances)))\n            dist_vals = np.array(\n                mpi.comm.allgather(np.max(distances)))", "mpi.comm.allgather(np.max(distances)))\n            dist_vals = np.array(\n                mpi.comm.allgather(np.argmax(distances)))"),
        ("kc: distribute_frame keywords swapped", KC, "world_index=new_cluster_center_index,\n            owner_rank=new_cluster_center_owner)", "world_index=new_cluster_center_owner,\n            owner_rank=new_cluster_center_index)"),
        ("kc: improvement mask < -> <=", KC, "inds = (new_dists < distances)", "inds = (new_dists <= distances)"),
        ("kc: TI recompute > -> >=", KC, "recompute_dists = (distances > (cc_dists[assignments] / 2))", "recompute_dists = (distances >= (cc_dists[assignments] / 2))"),
        ("kc: TI divisor 2 -> 3", KC, "recompute_dists = (distances > (cc_dists[assignments] / 2))", "recompute_dists = (distances > (cc_dists[assignments] / 3))"),
        ("kc: appended pair (index, owner)", KC, "(new_cluster_center_owner, new_cluster_center_index))\n\n    return", "(new_cluster_center_index, new_cluster_center_owner))\n\n    return"),
        ("kc: new label len(center_inds) -> len+1", KC, "assignments[inds] = len(center_inds)\n\n    center_inds.append(\n", "assignments[inds] = len(center_inds) + 1\n\n    center_inds.append(\n"),
        ("kc: cold owner 0 -> 1", KC, "new_cluster_center_owner = 0", "new_cluster_center_owner = 1"),
        ("kc: cold test == 0 -> <= 1", KC, "if len(center_inds) == 0:", "if len(center_inds) <= 1:"),
        ("kcenters: mpi maxdist uses local max", KC, "maxdist = (mpi.ops.striped_array_max(distances) if mpi_mode\n                   else distances.max())", "maxdist = (distances.max() if mpi_mode\n                   else distances.max())"),
        ("kcenters: while maxdist > cutoff -> >=", KC, "(maxdist > dist_cutoff)", "(maxdist >= dist_cutoff)"),
        ("kcenters: while count < -> <=", KC, "(len(ctr_inds) < n_clusters)", "(len(ctr_inds) <= n_clusters)"),
        ("kcenters: mpi_mode runs the serial iteration", KC, "iteration = _kcenters_iteration_mpi", "iteration = _kcenters_iteration"),
        ("warm: election min -> max", KC, "owner = min((r for r in range(len(gathered)) if label in gathered[r]),", "owner = max((r for r in range(len(gathered)) if label in gathered[r]),"),
        # --- kmedoids.py
        ("cim: rank = t % P -> t // P", KM, "mpi_rank = global_traj_id % num_procs", "mpi_rank = global_traj_id // num_procs"),
        ("cim: local_trj = int(t/P) -> t % P", KM, "local_trj_id = int(global_traj_id/num_procs)", "local_trj_id = global_traj_id % num_procs"),
        ("cim: owned rows stride rank::P -> rank+1::P", KM, "[mpi_rank::num_procs]", "[mpi_rank + 1::num_procs]"),
        ("cim: result pair swapped", KM, "updated_ctr_inds.append((mpi_rank,concat_idx))", "updated_ctr_inds.append((concat_idx,mpi_rank))"),
        ("cim: where components swapped", KM, "[[ra.where(global_inds == c)[0][0], \\\n                           ra.where(global_inds == c)[1][0]]", "[[ra.where(global_inds == c)[1][0], \\\n                           ra.where(global_inds == c)[0][0]]"),
        ("cim: pair unpack order swapped", KM, "global_traj_id, frame_id = pair", "frame_id, global_traj_id = pair"),
        ("cim: concat_idx row frame -> frame+1", KM, "concat_idx = trajs_owned_local_inds[local_trj_id][frame_id]", "concat_idx = trajs_owned_local_inds[local_trj_id][frame_id + 1]"),
        ("msq: mean of squares -> mean", KM, "return mpi.ops.striped_array_mean(np.square(x))", "return mpi.ops.striped_array_mean(x)"),
        ("prop: sender test rank == r -> rank == 0", KM, "if mpi.rank() == r:\n            i = mpi.comm.bcast(state_inds[idx], root=r)", "if mpi.rank() == 0:\n            i = mpi.comm.bcast(state_inds[idx], root=r)"),
        ("prop: bcast root r -> 0 (both)", KM, "root=r)", "root=0)", 2),
        ("prop: payload state_inds[idx] -> idx", KM, "i = mpi.comm.bcast(state_inds[idx], root=r)", "i = mpi.comm.bcast(idx, root=r)"),
        ("prop: proposed_center_ind = (r, idx)", KM, "proposed_center_ind = (r, i)", "proposed_center_ind = (r, idx)"),
        ("prop: distribute_frame keywords swapped", KM, "data=X, owner_rank=r, world_index=i)", "data=X, owner_rank=i, world_index=r)"),
        ("pam: accept test < -> <=", KM, "if new_cost < old_cost:", "if new_cost <= old_cost:"),
        ("pam: accept test operands swapped", KM, "if new_cost < old_cost:", "if old_cost < new_cost:"),
        ("pam: explicit proposal keywords swapped", KM, "data=X, owner_rank=proposed_center_ind[0],\n                    world_index=proposed_center_ind[1])", "data=X, owner_rank=proposed_center_ind[1],\n                    world_index=proposed_center_ind[0])"),
        ("pam: medoid coord keywords swapped", KM, "data=X, owner_rank=rank, world_index=frame_idx)\n            medoid_coords.append(new_center)\n    else:", "data=X, owner_rank=frame_idx, world_index=rank)\n            medoid_coords.append(new_center)\n    else:"),
        ("pam: accepted proposal not recorded", KM, "            medoid_inds[cid] = proposed_center_ind\n", ""),
        ("pam: cost default -> striped_array_max", KM, "cost=_msq, random_state=None", "cost=mpi.ops.striped_array_max, random_state=None"),
        ("asr: fill length sum -> sum+1", OPS, "global_array = np.zeros(shape=(np.sum(global_lengths),)) - 1", "global_array = np.zeros(shape=(np.sum(global_lengths) + 1,)) - 1"),
        # --- harmless rewrites
        ("HARMLESS: sum(n_states) -> np.sum(n_states) in randind guard", OPS, "if sum(n_states) < 1:", "if np.sum(n_states) < 1:"),
        ("HARMLESS: comment + blank lines in ops.randind", OPS, "    # First thing, we need to find out how long all the local arrays are.", "    # count the local items\n\n"),
        ("HARMLESS: extra logger.debug in striped_array_max", OPS, "    local_max = local_array.max()\n", "    local_max = local_array.max()\n    logger.debug('local max %s', local_max)\n"),
        ("HARMLESS: np.max(local_array) instead of .max()", OPS, "local_max = local_array.max()", "local_max = np.max(local_array)"),
        ("HARMLESS: rename loop variable i -> k in asa", OPS, "    for i in range(mpi.size()):\n        global_arr[i::mpi.size()] = mpi.comm.bcast(local_arr, root=i)", "    for k in range(mpi.size()):\n        global_arr[k::mpi.size()] = mpi.comm.bcast(local_arr, root=k)"),
        ("HARMLESS: 1 < len(local_lengths)", OPS, "if len(local_lengths) > 1:", "if 1 < len(local_lengths):"),
        ("HARMLESS: docstring edit in distribute_frame", OPS, "Distribute an element of an array to every node in an MPI swarm.", "Send one element of an array to every rank."),
    ]
    only = sys.argv[1:] 
    for m in M:
        if only and not any(o in m[0] for o in only):
            continue
        run(*m)
