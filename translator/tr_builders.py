"""enspara/msm/builders.py (_apply_prior_counts, _row_normalize, normalize, transpose, mle, and the
prologue / final step of _prinz_mle_py) and enspara/msm/transition_matrices.py (eq_probs)
  ->  Gen/BuildersGen.v, written over the array vocabulary of Base/BuildersBase.v.

What is regenerated is the array dataflow that carries property C04: what is added to what, which
matrix is transposed, symmetrised, halved, row-summed (and over which axis), which matrix is
row-normalised and from which one the populations are taken, where the prior counts enter, what
eq_probs is called on, how eq_probs guards ARPACK's answer.  Every function becomes a Gallina function
in the `res` monad (Ok / NotImpl / Err) whose let-chain follows the Python statements one by one.

Fail-closed: statements and expressions outside the tables below raise TranslatorReject.

Static types: A 2-D array (dense or sparse container), V 1-D array, Q number, N size, B bool,
K container class, P prior counts (None / number / ndarray), MASK boolean vector, COL / ROW a vector
reshaped to (n, 1) / (1, n), DIAG a scipy diagonal matrix given by its diagonal, SHAPE, EVECS the
eigenvector matrix of eigenspectrum (only its leading column is used), NONE, OV optional vector.

Statements
    NAME = <expr>                       at most one raising operation, at the top of <expr>
    NAME, NAME = <call>                 tuple result of _prinz_mle_py / eigenspectrum ('_' ignored)
    NAME[<mask>] = <expr>               NAME a vector this function allocated itself
    if <test>: ... [else: ...]          no return/raise inside; variables merged after the branch
    try: NAME = <e1>  except NotImplementedError: NAME = <e2>
    try: A, B = eigenspectrum(X, ...)   except scipy.sparse.linalg.ArpackNoConvergence:
        A, B = eigenspectrum(X.toarray(), <same n_eigs, left>)      only this class, only the dense fall-back
    assert <test>[, message]
    warnings.warn(<no calls inside>)    no effect on the returned values
    return <expr | tuple>               last statement only
    for n_iter in range(max_iter): ...  (_prinz_mle_py only) the iteration of property C12: replaced by
                                        the parameter `loop`; it may store only into X and X_rs, both
                                        allocated by the function, and call only range/len/abs/np.log/np.sqrt
Ownership: every array value carries the flag "allocated here, shares no buffer with an argument".
Arguments and everything that may alias them (np.asarray, .T, .tocsr(), .asfptype(), csr_matrix(x),
.reshape, K(x), results of _apply_prior_counts) are not owned.  In-place operations (subscript
stores, augmented assignments, attribute stores such as `x.data *= ...`) are accepted only on owned
plain names -- and augmented assignment / attribute stores are not accepted at all; methods outside
the table (sort_indices, eliminate_zeros, setdiag, resize, ...) are rejected.  This is what "the
caller's matrix is left unchanged" rests on.
"""
import ast
from fractions import Fraction
from pyast import parse_file, find_func, reject, strip_doc

REL = "enspara/msm/builders.py"
REL_TM = "enspara/msm/transition_matrices.py"

COQ_TY = {"A": "arr", "V": "list Q", "Q": "Q", "N": "nat", "B": "bool", "K": "kind", "P": "prior",
          "OV": "option (list Q)"}


class Val:
    def __init__(self, s, ty, owned=True, fallible=False):
        self.s, self.ty, self.owned, self.fallible = s, ty, owned, fallible


def coq_ty(t):
    if isinstance(t, tuple):
        return "(" + " * ".join(coq_ty(x) for x in t) + ")"
    return "(%s)" % COQ_TY[t] if " " in COQ_TY[t] else COQ_TY[t]


def qlit(v):
    fr = Fraction(v)
    return "(Qmake (%d) %d)" % (fr.numerator, fr.denominator)


def dotted(e):
    """a.b.c -> 'a.b.c' for pure attribute chains of names, else None"""
    parts = []
    while isinstance(e, ast.Attribute):
        parts.append(e.attr)
        e = e.value
    if isinstance(e, ast.Name):
        parts.append(e.id)
        return ".".join(reversed(parts))
    return None


def is_num(e):
    return isinstance(e, ast.Constant) and type(e.value) in (int, float)


def kwargs(call, allowed):
    out = {}
    for kw in call.keywords:
        if kw.arg is None or kw.arg not in allowed or kw.arg in out:
            reject(call, "unsupported keyword %s" % kw.arg)
        out[kw.arg] = kw.value
    return out


class Fn:
    """translator of one function body; funcs: python name -> (coq term prefix, [arg types], ret type, owned)"""

    def __init__(self, funcs):
        self.funcs = funcs

    # ------------------------------------------------------------------ expressions
    def ex(self, e, env):
        v = self._ex(e, env)
        return v

    def pure(self, e, env, want=None):
        v = self._ex(e, env)
        if v.fallible:
            reject(e, "an operation that can raise must stand alone at the top of an assignment")
        if want is not None and v.ty != want and not (isinstance(want, tuple) and v.ty in want):
            reject(e, "type %s where %s expected" % (v.ty, want))
        return v

    def axis(self, call):
        kw = kwargs(call, ("axis",))
        if call.args:
            reject(call, "positional arguments of sum")
        if "axis" not in kw:
            return None
        a = kw["axis"]
        if isinstance(a, ast.UnaryOp) and isinstance(a.op, ast.USub) and is_num(a.operand) and a.operand.value == 1:
            return 1
        if is_num(a) and a.value in (0, 1) and type(a.value) is int:
            return a.value
        reject(call, "unsupported axis")

    def _ex(self, e, env):
        if isinstance(e, ast.Constant):
            if e.value is None:
                return Val("None", "NONE")
            if type(e.value) in (int, float):
                return Val(qlit(e.value), "Q")
            reject(e, "unsupported constant")
        if isinstance(e, ast.Name):
            if e.id not in env:
                reject(e, "unknown name %s" % e.id)
            ty, owned = env[e.id]
            return Val(e.id, ty, owned)
        if isinstance(e, ast.Attribute):
            if dotted(e) == "np.array":
                return Val("KArr", "K")
            r = self.pure(e.value, env)
            if e.attr == "T" and r.ty == "A":
                return Val("(a_T %s)" % r.s, "A", r.owned)
            if e.attr == "shape" and r.ty == "A":
                return Val(r.s, "SHAPE")
            reject(e, "unsupported attribute")
        if isinstance(e, ast.BinOp):
            return self.binop(e, env)
        if isinstance(e, ast.Compare):
            if len(e.ops) == 1:
                l = self.pure(e.left, env)
                c = e.comparators[0]
                if l.ty == "V" and is_num(c):
                    op = {ast.Gt: "v_gt", ast.GtE: "v_ge", ast.NotEq: "v_ne"}.get(type(e.ops[0]))
                    if op:
                        return Val("(%s %s %s)" % (op, l.s, qlit(c.value)), "MASK")
            return Val(self.test(e, env), "B")
        if isinstance(e, ast.Subscript):
            return self.subscript(e, env)
        if isinstance(e, ast.Call):
            return self.call(e, env)
        if isinstance(e, ast.Tuple):
            parts = [self.pure(x, env) for x in e.elts]
            for p in parts:
                if p.ty not in COQ_TY and p.ty != "NONE":
                    reject(e, "tuple component of type %s" % p.ty)
            return Val(parts, tuple(p.ty for p in parts), all(p.owned for p in parts))
        if isinstance(e, (ast.BoolOp, ast.UnaryOp)):
            return Val(self.test(e, env), "B")
        reject(e, "unsupported expression")

    def binop(self, e, env):
        l, r = self.pure(e.left, env), self.pure(e.right, env)
        t = (type(e.op), l.ty, r.ty)
        if t == (ast.Add, "A", "A"):
            return Val("(a_add %s %s)" % (l.s, r.s), "A", True, True)
        if t == (ast.Add, "A", "P"):
            return Val("(a_add_prior %s %s)" % (l.s, r.s), "A", True, True)
        table = {(ast.Div, "A", "Q"): ("a_div_scalar", "A"), (ast.Div, "A", "COL"): ("a_div_col", "A"),
                 (ast.Div, "A", "ROW"): ("a_div_row", "A"), (ast.Mult, "A", "COL"): ("a_mul_col", "A"),
                 (ast.Mult, "A", "ROW"): ("a_mul_row", "A"), (ast.Div, "V", "Q"): ("v_div_scalar", "V"),
                 (ast.Div, "Q", "V"): ("v_rdiv", "V"), (ast.Div, "Q", "Q"): ("Qdiv", "Q"),
                 (ast.MatMult, "V", "A"): ("v_matmul", "V")}
        if t in table:
            f, ty = table[t]
            return Val("(%s %s %s)" % (f, l.s, r.s), ty)
        reject(e, "unsupported operation %s on %s, %s" % (type(e.op).__name__, l.ty, r.ty))

    def subscript(self, e, env):
        b = self.pure(e.value, env)
        s = e.slice
        if b.ty == "SHAPE" and is_num(s) and s.value == 0:
            return Val("(a_shape0 %s)" % b.s, "N")
        if b.ty == "V":
            m = self.pure(s, env)
            if m.ty == "MASK":
                return Val("(v_take %s %s)" % (m.s, b.s), "V")
        if b.ty == "Q" and ast.unparse(s) in ("(..., None)", "..., None"):
            return Val(b.s, "Q")            # 0-d -> shape (1,): broadcasts like the number
        if b.ty == "EVECS" and ast.unparse(s) in ("(slice(None, None, None), 0)", ":, 0", "(:, 0)"):
            return Val(b.s, "V")
        if b.ty == "EVECS" and isinstance(s, ast.Tuple) and len(s.elts) == 2 and isinstance(s.elts[0], ast.Slice) \
                and s.elts[0].lower is None and s.elts[0].upper is None and s.elts[0].step is None \
                and is_num(s.elts[1]) and s.elts[1].value == 0:
            return Val(b.s, "V")
        reject(e, "unsupported subscript")

    def call(self, e, env):
        f = e.func
        name = dotted(f)
        # ---- plain functions
        if name in ("np.array", "np.asarray"):
            if e.keywords or len(e.args) != 1:
                reject(e, "np.array/np.asarray: one positional argument expected")
            a = self.pure(e.args[0], env)
            owned = True if name == "np.array" else a.owned
            if a.ty == "A":
                return Val("(a_np_array %s)" % a.s, "A", owned)
            if a.ty == "V":
                return Val(a.s, "V", owned)
            reject(e, "np.array of %s" % a.ty)
        if name == "np.zeros":
            if e.keywords or len(e.args) != 1:
                reject(e, "np.zeros(n) expected")
            a = self.pure(e.args[0], env, "N")
            return Val("(v_zeros %s)" % a.s, "V")
        if name == "np.sum":
            if e.keywords or len(e.args) != 1:
                reject(e, "np.sum(v) expected")
            a = self.pure(e.args[0], env, "V")
            return Val("(v_total %s)" % a.s, "Q")
        if name == "len":
            a = self.pure(e.args[0], env, "A") if len(e.args) == 1 and not e.keywords else reject(e, "len")
            return Val("(a_shape0 %s)" % a.s, "N")
        if name == "scipy.sparse.csr_matrix":
            if e.keywords or len(e.args) != 1:
                reject(e, "csr_matrix(x) expected")
            a = self.pure(e.args[0], env, "A")
            return Val("(a_csr_matrix %s)" % a.s, "A", a.owned)
        if name == "scipy.sparse.dia_matrix":
            ok = (not e.keywords and len(e.args) == 2 and isinstance(e.args[0], ast.Tuple) and len(e.args[0].elts) == 2
                  and is_num(e.args[0].elts[1]) and e.args[0].elts[1].value == 0)
            if not ok:
                reject(e, "dia_matrix((v, 0), x.shape) expected")
            d = self.pure(e.args[0].elts[0], env, "V")
            self.pure(e.args[1], env, "SHAPE")
            return Val(d.s, "DIAG", d.owned)
        if name == "type" and len(e.args) == 1 and not e.keywords:
            a = self.pure(e.args[0], env, "A")
            return Val("(a_kind %s)" % a.s, "K")
        if name in self.funcs:
            cname, atys, rty, owned = self.funcs[name]
            if name == "eigenspectrum":
                kw = kwargs(e, ("n_eigs", "left", "maxiter", "tol"))
                if len(e.args) != 1 or "left" not in kw or not (isinstance(kw["left"], ast.Constant) and kw["left"].value is True):
                    reject(e, "eigenspectrum(T, ..., left=True, ...) expected")
                if "n_eigs" not in kw or not (is_num(kw["n_eigs"]) and kw["n_eigs"].value >= 2):
                    reject(e, "eigenspectrum: literal n_eigs >= 2 expected")
            elif e.keywords:
                reject(e, "keyword arguments calling %s" % name)
            if len(e.args) != len(atys):
                reject(e, "arity mismatch calling %s" % name)
            args = [self.pure(a, env, ty).s for a, ty in zip(e.args, atys)]
            return Val("(%s %s)" % (cname, " ".join(args)), rty, owned, True)
        # ---- K(x): cast to a container class
        if isinstance(f, ast.Call) and dotted(f.func) == "type" or (isinstance(f, ast.Name) and env.get(f.id, ("", 0))[0] == "K"):
            k = self.pure(f, env, "K")
            if e.keywords or len(e.args) != 1:
                reject(e, "K(x) expected")
            a = self.pure(e.args[0], env, "A")
            return Val("(a_cast %s %s)" % (k.s, a.s), "A", a.owned)
        # ---- methods
        if isinstance(f, ast.Attribute):
            r = self.pure(f.value, env)
            m = f.attr
            if m == "sum":
                ax = self.axis(e)
                if r.ty == "A":
                    if ax is None:
                        return Val("(a_total %s)" % r.s, "Q")
                    return Val("(%s %s)" % ("a_rowsum" if ax == 1 else "a_colsum", r.s), "V")
                if r.ty == "V" and ax is None:
                    return Val("(v_total %s)" % r.s, "Q")
                reject(e, "sum of %s" % r.ty)
            if m == "reshape" and r.ty == "V":
                if e.keywords:
                    reject(e, "reshape keywords")
                dims = e.args[0].elts if len(e.args) == 1 and isinstance(e.args[0], ast.Tuple) else e.args
                if len(dims) != 2:
                    reject(e, "reshape to two dimensions expected")
                one = [is_num(d) and d.value == 1 for d in dims]
                if one == [False, True]:
                    self.pure(dims[0], env, "N")
                    return Val(r.s, "COL", r.owned)
                if one == [True, False]:
                    self.pure(dims[1], env, "N")
                    return Val(r.s, "ROW", r.owned)
                reject(e, "reshape((n, 1)) or reshape((1, n)) expected")
            if m == "dot" and r.ty == "DIAG" and len(e.args) == 1 and not e.keywords:
                a = self.pure(e.args[0], env, "A")
                return Val("(a_diag_dot %s %s)" % (r.s, a.s), "A")
            if m == "astype" and r.ty == "A" and len(e.args) == 1 and not e.keywords and ast.unparse(e.args[0]) == "float":
                return Val("(a_astype_float %s)" % r.s, "A", True)
            if e.args or e.keywords:
                reject(e, "unsupported method call")
            if m == "flatten" and r.ty == "V":
                return Val(r.s, "V", True)
            if m == "tocsr" and r.ty == "DIAG":
                return Val(r.s, "DIAG", r.owned)
            simple = {"tocsr": ("a_tocsr", None), "asfptype": ("a_asfptype", None), "copy": ("a_copy", True),
                      "toarray": ("a_toarray", True), "todense": ("a_todense", True)}
            if m in simple and r.ty == "A":
                fn, ow = simple[m]
                return Val("(%s %s)" % (fn, r.s), "A", r.owned if ow is None else ow)
        reject(e, "unsupported call")

    # ------------------------------------------------------------------ tests
    def test(self, e, env):
        if isinstance(e, ast.Name):
            return self.pure(e, env, "B").s
        if isinstance(e, ast.UnaryOp) and isinstance(e.op, ast.Not):
            return "(negb %s)" % self.test(e.operand, env)
        if isinstance(e, ast.BoolOp):
            op = "andb" if isinstance(e.op, ast.And) else "orb"
            parts = [self.test(v, env) for v in e.values]
            s = parts[0]
            for p in parts[1:]:
                s = "(%s %s %s)" % (op, s, p)
            return s
        if isinstance(e, ast.Compare) and len(e.ops) == 1 and isinstance(e.ops[0], (ast.Is, ast.IsNot)):
            l, r = e.left, e.comparators[0]
            neg = isinstance(e.ops[0], ast.IsNot)
            if isinstance(r, ast.Constant) and r.value is None:
                s = "(prior_is_none %s)" % self.pure(l, env, "P").s
            else:
                kl, kr = self.pure(l, env, "K"), self.pure(r, env, "K")
                s = "(kind_eqb %s %s)" % (kl.s, kr.s)
            return "(negb %s)" % s if neg else s
        if isinstance(e, ast.Call):
            name = dotted(e.func)
            if name == "scipy.sparse.issparse" and len(e.args) == 1 and not e.keywords:
                return "(is_sparse %s)" % self.pure(e.args[0], env, "A").s
            if name == "isinstance" and len(e.args) == 2 and not e.keywords and dotted(e.args[1]) == "np.matrix":
                return "(is_npmatrix %s)" % self.pure(e.args[0], env, "A").s
            if name == "np.all" and len(e.args) == 1 and not e.keywords:
                return "(v_all %s)" % self.pure(e.args[0], env, "MASK").s
            if name == "np.allclose" and len(e.args) == 2:
                kw = kwargs(e, ("rtol", "atol"))
                a = self.pure(e.args[0], env, "V")
                if not kw and is_num(e.args[1]):
                    return "(v_allclose %s %s)" % (a.s, qlit(e.args[1].value))
                b = self.pure(e.args[1], env, "V")
                if set(kw) == {"rtol", "atol"} and is_num(kw["rtol"]) and kw["rtol"].value == 0 and is_num(kw["atol"]):
                    return "(v_allclose2 %s %s %s)" % (qlit(kw["atol"].value), a.s, b.s)
                reject(e, "np.allclose(v, c) or np.allclose(u, v, rtol=0, atol=c) expected")
            if name == "np.isclose" and len(e.args) == 2 and not e.keywords and is_num(e.args[1]):
                return "(q_isclose %s %s)" % (self.pure(e.args[0], env, "Q").s, qlit(e.args[1].value))
        reject(e, "unsupported test")

    # ------------------------------------------------------------------ statements
    @staticmethod
    def assigned(stmts):
        out = []
        for s in stmts:
            if isinstance(s, ast.Assign) and len(s.targets) == 1:
                t = s.targets[0]
                if isinstance(t, ast.Name):
                    out.append(t.id)
                elif isinstance(t, ast.Tuple) and all(isinstance(x, ast.Name) for x in t.elts):
                    out += [x.id for x in t.elts if x.id != "_"]
                elif isinstance(t, ast.Subscript) and isinstance(t.value, ast.Name):
                    out.append(t.value.id)
                else:
                    reject(s, "unsupported assignment target")
            elif isinstance(s, ast.If):
                out += Fn.assigned(s.body) + Fn.assigned(s.orelse)
            elif isinstance(s, ast.Try):
                out += Fn.assigned(s.body)
            elif isinstance(s, (ast.Expr, ast.Assert)):
                pass
            else:
                reject(s, "unsupported statement inside a branch")
        res = []
        for v in out:
            if v not in res:
                res.append(v)
        return res

    @staticmethod
    def join(a, b, node):
        if a == b:
            return a
        if {a, b} <= {"NONE", "V", "OV"}:
            return "OV"
        reject(node, "branches give %s and %s" % (a, b))

    @staticmethod
    def coerce(name, have, want):
        if have == want:
            return name
        if want == "OV" and have == "NONE":
            return "(@None (list Q))"
        if want == "OV" and have == "V":
            return "(Some %s)" % name
        raise AssertionError((name, have, want))

    def bind(self, pat, v, rest):
        if v.fallible:
            return "rbind %s (fun %s =>\n  %s)" % (v.s, pat, rest)
        return "let %s := %s in\n  %s" % (pat, v.s, rest)

    def block(self, stmts, env, final, live=frozenset()):
        """stmts then final(env) -> text of type res _; live: names read by `final`"""
        _blk = self.block
        self_block = lambda st, en, fi, lv=None: _blk(st, en, fi, live if lv is None else lv)
        env = dict(env)
        if not stmts:
            return final(env)
        s, rest = stmts[0], stmts[1:]
        if isinstance(s, ast.Expr):
            if isinstance(s.value, ast.Constant) and isinstance(s.value.value, str):
                return self_block(rest, env, final)
            c = s.value
            if isinstance(c, ast.Call) and dotted(c.func) == "warnings.warn":
                for a in list(c.args) + [k.value for k in c.keywords]:
                    if any(isinstance(n, ast.Call) for n in ast.walk(a)):
                        reject(s, "call inside the arguments of warnings.warn")
                return self_block(rest, env, final)
            reject(s, "unsupported expression statement")
        if isinstance(s, ast.Assert):
            t = self.test(s.test, env)
            return "rassert %s (\n  %s)" % (t, self_block(rest, env, final))
        if isinstance(s, ast.Assign):
            if len(s.targets) != 1:
                reject(s, "chained assignment")
            t = s.targets[0]
            if isinstance(t, ast.Name):
                v = self.ex(s.value, env)
                if v.ty not in COQ_TY and v.ty not in ("NONE", "DIAG"):
                    reject(s, "cannot bind a value of type %s" % str(v.ty))
                env[t.id] = (v.ty, v.owned)
                if v.ty == "NONE":
                    return self_block(rest, env, final)
                return self.bind(t.id, v, self_block(rest, env, final))
            if isinstance(t, ast.Tuple) and all(isinstance(x, ast.Name) for x in t.elts):
                v = self.ex(s.value, env)
                if not (isinstance(v.ty, tuple) and len(v.ty) == len(t.elts) and isinstance(s.value, ast.Call)):
                    reject(s, "tuple unpacking needs a call with a tuple result")
                names = []
                for x, ty in zip(t.elts, v.ty):
                    if x.id == "_" or ty == "IGN":
                        names.append("_")
                    else:
                        env[x.id] = (ty, v.owned)
                        names.append(x.id)
                return self.bind("'(%s)" % ", ".join(names), v, self_block(rest, env, final))
            if isinstance(t, ast.Subscript) and isinstance(t.value, ast.Name):
                d = t.value.id
                if d not in env or env[d][0] != "V":
                    reject(s, "subscript store into something that is not a vector")
                if not env[d][1]:
                    reject(s, "in-place store into %s, which may share memory with an argument" % d)
                m = self.pure(t.slice, env, "MASK")
                v = self.pure(s.value, env, "V")
                return "let %s := (v_put %s %s %s) in\n  %s" % (d, m.s, d, v.s, self_block(rest, env, final))
            reject(s, "unsupported assignment target (in-place attribute stores are not accepted)")
        if isinstance(s, ast.AugAssign):
            reject(s, "augmented assignment (in-place update) is not accepted")
        if isinstance(s, ast.Try) and len(s.handlers) == 1 and s.handlers[0].type is not None \
                and dotted(s.handlers[0].type) == "scipy.sparse.linalg.ArpackNoConvergence":
            # try: A, B = eigenspectrum(X, ...) / except ArpackNoConvergence: A, B = eigenspectrum(X.toarray(), ...)
            h = s.handlers[0]
            why = "expected try: a, b = eigenspectrum(X, ...) / except scipy.sparse.linalg.ArpackNoConvergence: " \
                  "a, b = eigenspectrum(X.toarray(), n_eigs=<same>, left=True)"
            ok = (len(s.body) == 1 and not s.orelse and not s.finalbody and h.name is None and len(h.body) == 1
                  and all(isinstance(x, ast.Assign) and len(x.targets) == 1 and isinstance(x.targets[0], ast.Tuple)
                          and all(isinstance(t, ast.Name) for t in x.targets[0].elts)
                          and isinstance(x.value, ast.Call) and dotted(x.value.func) == "eigenspectrum"
                          and len(x.value.args) == 1 for x in (s.body[0], h.body[0]))
                  and "eigenspectrum" in self.funcs)
            if not ok:
                reject(s, why)
            c1, c2 = s.body[0].value, h.body[0].value
            if [t.id for t in s.body[0].targets[0].elts] != [t.id for t in h.body[0].targets[0].elts]:
                reject(s, why + " (the handler binds other names)")
            x = c1.args[0]
            if not (isinstance(x, ast.Name) and env.get(x.id, ("",))[0] == "A"):
                reject(s, why + " (the guarded call must be on a plain 2-D array name)")
            if ast.unparse(c2.args[0]) != "%s.toarray()" % x.id:
                reject(s, why + " (the handler must call the solver on %s.toarray())" % x.id)
            k1, k2 = kwargs(c1, ("n_eigs", "left", "maxiter", "tol")), kwargs(c2, ("n_eigs", "left", "maxiter", "tol"))
            for k in ("n_eigs", "left"):
                if k not in k1 or k not in k2 or ast.unparse(k1[k]) != ast.unparse(k2[k]):
                    reject(s, why + " (%s differs between the call and its fall-back)" % k)
            v1 = self.ex(c1, env)
            v2 = self.ex(c2, env)
            if not (v1.fallible and v2.fallible) or v1.ty != v2.ty or not isinstance(v1.ty, tuple) \
                    or len(v1.ty) != len(s.body[0].targets[0].elts):
                reject(s, why)
            names = []
            for t, ty in zip(s.body[0].targets[0].elts, v1.ty):
                if t.id == "_" or ty == "IGN":
                    names.append("_")
                else:
                    env[t.id] = (ty, v1.owned and v2.owned)
                    names.append(t.id)
            return "rbind (try_noconv %s %s) (fun '(%s) =>\n  %s)" % (v1.s, v2.s, ", ".join(names),
                                                                      self_block(rest, env, final))
        if isinstance(s, ast.Try):
            ok = (len(s.body) == 1 and len(s.handlers) == 1 and not s.orelse and not s.finalbody
                  and isinstance(s.handlers[0].type, ast.Name) and s.handlers[0].type.id == "NotImplementedError"
                  and s.handlers[0].name is None and len(s.handlers[0].body) == 1
                  and all(isinstance(x, ast.Assign) and len(x.targets) == 1 and isinstance(x.targets[0], ast.Name)
                          for x in (s.body[0], s.handlers[0].body[0]))
                  and s.body[0].targets[0].id == s.handlers[0].body[0].targets[0].id)
            if not ok:
                reject(s, "expected try: X = e1 / except NotImplementedError: X = e2")
            n = s.body[0].targets[0].id
            v1 = self.ex(s.body[0].value, env)
            v2 = self.ex(s.handlers[0].body[0].value, env)
            if not v1.fallible or v1.ty != v2.ty or v1.ty not in COQ_TY:
                reject(s, "try: the guarded expression must be able to raise, both sides of one type")
            s2 = v2.s if v2.fallible else "(Ok %s)" % v2.s
            env[n] = (v1.ty, v1.owned and v2.owned)
            return "rbind (try_notimpl %s %s) (fun %s =>\n  %s)" % (v1.s, s2, n, self_block(rest, env, final))
        if isinstance(s, ast.If):
            tst = self.test(s.test, env)
            a1, a2 = self.assigned(s.body), self.assigned(s.orelse)
            need = set(live)
            for r_ in rest:
                need |= {n.id for n in ast.walk(r_) if isinstance(n, ast.Name)}
            vs = [v for v in dict.fromkeys(a1 + a2) if (v in a1 or v in env) and (v in a2 or v in env) and v in need]
            ends = []
            for br in (s.body, s.orelse):
                cap = {}

                def grab(e, cap=cap):
                    cap.update(e)
                    return "Ok tt"
                self_block(br, env, grab, frozenset(vs))
                ends.append(cap)
            if not vs:
                # nothing survives the branch: it must still be translatable (fail-closed), and is dropped
                return self_block(rest, env, final)
            tys = [self.join(ends[0][v][0], ends[1][v][0], s) for v in vs]
            for v, ty in zip(vs, tys):
                if ty not in COQ_TY:
                    reject(s, "variable %s of type %s cannot leave a branch" % (v, ty))

            def tup(e):
                return "Ok (%s)" % ", ".join(self.coerce(v, e[v][0], ty) for v, ty in zip(vs, tys))
            b1 = self_block(s.body, env, tup, frozenset(vs))
            b2 = self_block(s.orelse, env, tup, frozenset(vs))
            for v, ty in zip(vs, tys):
                env[v] = (ty, ends[0][v][1] and ends[1][v][1])
            for v in dict.fromkeys(a1 + a2):
                if v not in vs:
                    env.pop(v, None)
            pat = vs[0] if len(vs) == 1 else "'(%s)" % ", ".join(vs)
            return "rbind (if %s then (%s) else (%s)) (fun %s =>\n  %s)" % (tst, b1, b2, pat, self_block(rest, env, final))
        if isinstance(s, ast.Return):
            if rest:
                reject(s, "code after return")
            return final(env, s)
        reject(s, "unsupported statement")

    def function(self, fn, params, extra, ret_ty, gen_name, pre=None):
        """params: [(name, type)]; extra: coq binders text; returns (text, owned-of-result)"""
        body = strip_doc(fn.body)
        if not body or not isinstance(body[-1], ast.Return) or body[-1].value is None:
            reject(fn, "function must end in `return <value>`")
        for n in ast.walk(fn):
            if isinstance(n, (ast.Return,)) and n is not body[-1]:
                reject(n, "early return")
            if isinstance(n, (ast.Raise, ast.While, ast.With, ast.Global, ast.Nonlocal, ast.Delete, ast.Lambda,
                              ast.FunctionDef, ast.IfExp, ast.ListComp, ast.Starred)) and n is not fn:
                reject(n, "unsupported construct")
        env = {n: (t, False) for n, t in params}
        info = {}

        def fin(e, ret=None):
            v = self.pure(ret.value, e)
            if isinstance(ret_ty, tuple):
                if not isinstance(v.ty, tuple) or len(v.ty) != len(ret_ty):
                    reject(ret, "return value has type %s, expected %s" % (v.ty, ret_ty))
                parts = []
                for p, want in zip(v.s, ret_ty):
                    if p.ty != want and not (want == "OV" and p.ty in ("NONE", "V")):
                        reject(ret, "return component of type %s, expected %s" % (p.ty, want))
                    parts.append(self.coerce(p.s, p.ty, want))
                info["owned"] = v.owned
                return "Ok (%s)" % ", ".join(parts)
            if v.ty != ret_ty:
                reject(ret, "return value has type %s, expected %s" % (v.ty, ret_ty))
            info["owned"] = v.owned
            return "Ok %s" % v.s
        stmts = body if pre is None else pre(body, env)
        text = self.block(stmts, env, fin)
        binders = " ".join([extra] + ["(%s : %s)" % (n, COQ_TY[t]) for n, t in params]).strip()
        return ("Definition %s %s : res %s :=\n  %s.\n" % (gen_name, binders, coq_ty(ret_ty), text)), info["owned"]


def check_sig(fn, names, defaults, rel):
    a = fn.args
    if a.vararg or a.kwarg or a.kwonlyargs or a.posonlyargs or [x.arg for x in a.args] != names:
        reject(fn, "%s: unexpected signature of %s" % (rel, fn.name))
    if [ast.unparse(d) for d in a.defaults] != defaults:
        reject(fn, "%s: unexpected defaults of %s" % (rel, fn.name))


# ----------------------------------------------------------------------------- the Prinz loop
LOOP_CALLS = ("range", "len", "abs", "np.log", "np.sqrt")


def prinz_pre(tr):
    """statement rewriting for _prinz_mle_py: the iteration becomes `X, X_rs = loop(C, C_rs, X, X_rs)`"""
    def pre(body, env):
        idx = [i for i, s in enumerate(body) if isinstance(s, ast.For)]
        if len(idx) != 1:
            reject(body[0], "_prinz_mle_py: exactly one top-level loop expected")
        k = idx[0]
        loop = body[k]
        if ast.unparse(loop.target) != "n_iter" or ast.unparse(loop.iter) != "range(max_iter)" or loop.orelse:
            reject(loop, "expected for n_iter in range(max_iter)")
        stores = set()
        for n in ast.walk(loop):
            if isinstance(n, (ast.Assign, ast.AugAssign, ast.AnnAssign)):
                tg = n.targets if isinstance(n, ast.Assign) else [n.target]
                for t in tg:
                    if isinstance(t, ast.Name):
                        stores.add(("name", t.id))
                    elif isinstance(t, ast.Subscript) and isinstance(t.value, ast.Name):
                        stores.add(("elem", t.value.id))
                    else:
                        reject(n, "unsupported store inside the iteration")
            elif isinstance(n, ast.Call):
                if dotted(n.func) not in LOOP_CALLS:
                    reject(n, "call inside the iteration that is not one of %s" % (LOOP_CALLS,))
            elif isinstance(n, (ast.Return, ast.Raise, ast.With, ast.Try, ast.While, ast.Delete, ast.Global,
                                ast.Lambda, ast.NamedExpr, ast.Starred)):
                reject(n, "unsupported construct inside the iteration")
        elems = {n for k_, n in stores if k_ == "elem"}
        if elems - {"X", "X_rs"}:
            reject(loop, "the iteration stores into %s" % sorted(elems - {"X", "X_rs"}))
        arrays = ("C", "C_rs", "X", "X_rs")
        for k_, n in stores:
            if k_ == "name" and n in arrays:
                reject(loop, "the iteration rebinds %s" % n)
        after = body[k + 1:]
        if not after or not (isinstance(after[0], ast.If) and ast.unparse(after[0].test) == "n_iter == max_iter - 1"
                             and not after[0].orelse and len(after[0].body) == 1
                             and isinstance(after[0].body[0], ast.Expr) and isinstance(after[0].body[0].value, ast.Call)
                             and dotted(after[0].body[0].value.func) == "warnings.warn"):
            reject(loop, "expected the non-convergence warning after the iteration")
        marker = ast.parse("X, X_rs = __loop__(C, C_rs, X, X_rs)").body[0]
        ast.copy_location(marker, loop)
        # ownership of X and X_rs is checked where the marker is translated (funcs['__loop__'])
        return body[:k] + [marker] + after[1:]
    return pre


class PrinzFn(Fn):
    def call(self, e, env):
        if dotted(e.func) == "__loop__":
            for n in ("X", "X_rs"):
                if n not in env or not env[n][1]:
                    reject(e, "the iteration writes into %s, which may share memory with the argument" % n)
            if [env.get(n, (None,))[0] for n in ("C", "C_rs", "X", "X_rs")] != ["A", "V", "A", "V"]:
                reject(e, "unexpected types of C, C_rs, X, X_rs before the iteration")
            return Val("(loop C C_rs X X_rs)", ("A", "V"), True, False)
        return Fn.call(self, e, env)


# ----------------------------------------------------------------------------- driver
def translate(repo):
    tree, _ = parse_file(repo, REL)
    tm, _ = parse_file(repo, REL_TM)
    out = ["(* GENERATED by translator/tr_builders.py from %s and %s -- do not edit *)" % (REL, REL_TM),
           "From Coq Require Import List QArith Bool.", "From EV Require Import Builders BuildersBase.",
           "Import ListNotations.", "Open Scope Q_scope.", ""]
    funcs = {}
    # ---- _apply_prior_counts
    fn = find_func(tree, "_apply_prior_counts", REL)
    check_sig(fn, ["C", "prior_counts"], [], REL)
    text, owned = Fn(funcs).function(fn, [("C", "A"), ("prior_counts", "P")], "", "A", "gen_apply_prior_counts")
    out.append(text)
    funcs["_apply_prior_counts"] = ("gen_apply_prior_counts", ["A", "P"], "A", owned)
    # ---- _row_normalize
    fn = find_func(tree, "_row_normalize", REL)
    check_sig(fn, ["C"], [], REL)
    text, owned = Fn(funcs).function(fn, [("C", "A")], "", "A", "gen_row_normalize")
    if not owned:
        reject(fn, "_row_normalize may return a matrix that shares memory with its argument")
    out.append(text)
    funcs["_row_normalize"] = ("gen_row_normalize", ["A"], "A", owned)
    # ---- eq_probs (transition_matrices.py)
    fn = find_func(tm, "eq_probs", REL_TM)
    check_sig(fn, ["T", "maxiter", "tol"], ["100000", "1e-30"], REL_TM)
    es = find_func(tm, "eigenspectrum", REL_TM)
    check_sig(es, ["T", "n_eigs", "left", "maxiter", "tol"], ["None", "True", "100000", "1e-30"], REL_TM)
    f2 = dict(funcs)
    f2["eigenspectrum"] = ("eig_of eig", ["A"], ("IGN", "EVECS"), True)
    text, _ = Fn(f2).function(fn, [("T", "A")], "(eig : arr -> eig_ans)", "V", "gen_eq_probs")
    out.append("(* eig_of eig T (Base/BuildersBase.v) = eigenspectrum(T, n_eigs=3, left=True)[1][:, 0]: the leading left\n"
               "   eigenvector scaled to sum one, as answered by the solver `eig` (ARPACK for sparse T with >= 1000\n"
               "   states, LAPACK otherwise); ARPACK may answer ArpackNoConvergence instead, for sparse T only *)\n")
    out.append(text)
    # ---- normalize, transpose
    bparams = [("C", "A"), ("prior_counts", "P"), ("calculate_eq_probs", "B")]
    bret = ("A", "A", "OV")
    f3 = dict(funcs)
    f3["eq_probs"] = ("eqp", ["A"], "V", True)
    fn = find_func(tree, "normalize", REL)
    check_sig(fn, ["C", "prior_counts", "calculate_eq_probs"], ["None", "True"], REL)
    text, _ = Fn(f3).function(fn, bparams, "(eqp : arr -> res (list Q))", bret, "gen_normalize")
    out.append(text)
    fn = find_func(tree, "transpose", REL)
    check_sig(fn, ["C", "prior_counts", "calculate_eq_probs"], ["None", "True"], REL)
    text, _ = Fn(funcs).function(fn, bparams, "", bret, "gen_transpose")
    out.append(text)
    # ---- _prinz_mle_py: prologue, guards, final step (the iteration is the parameter `loop`)
    fn = find_func(tree, "_prinz_mle_py", REL)
    check_sig(fn, ["C", "tol", "max_iter"], ["1e-10", "10 ** 5"], REL)
    ptr = PrinzFn(funcs)
    text, _ = ptr.function(fn, [("C", "A")], "(loop : arr -> list Q -> arr -> list Q -> arr * list Q)", ("A", "V"),
                           "gen_prinz_mle_py", pre=prinz_pre(ptr))
    out.append(text)
    # ---- mle
    f4 = dict(funcs)
    f4["_prinz_mle_py"] = ("prinz", ["A"], ("A", "V"), True)
    fn = find_func(tree, "mle", REL)
    check_sig(fn, ["C", "prior_counts", "calculate_eq_probs"], ["None", "True"], REL)
    text, _ = Fn(f4).function(fn, bparams, "(prinz : arr -> res (arr * list Q))", bret, "gen_mle")
    out.append(text)
    return {"Gen/BuildersGen.v": "\n".join(out)}


if __name__ == "__main__":
    import sys
    print(translate(sys.argv[1] if len(sys.argv) > 1 else "/repo")["Gen/BuildersGen.v"])
