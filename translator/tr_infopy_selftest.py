"""Mutation rig for translator/tr_infopy.py: scratch copies of the two sources, hand-run translator,
scratch coq dir with copied .vo; verdict REJECT / GEN-BROKEN / PROOF-BREAKS(<file>) / IDENTICAL / SURVIVES."""
import os, shutil, subprocess, sys
sys.path.insert(0, "/verif/translator"); sys.path.insert(0, "/verif/harness")
import tr_infopy
from core import TranslatorReject

W = "/tmp/c18w"
COQ = W + "/mcoq"
MI = "enspara/info_theory/mutual_info.py"
EN = "enspara/info_theory/entropy.py"
PROOFS = {"Gen/MutualInfoGen.v": ["Proof/InfoPyGenCounts.v", "Proof/InfoPyGenMI.v", "Proof/InfoPyGenTop.v",
                                  "Proof/InfoPyGenWeighted.v"],
          "Gen/EntropyGen.v": ["Proof/EntropyGenProofs.v", "Proof/EntropyGen2dProofs.v"]}

LAST = ["Proof/InfoPyGenLaws.v"]     # depends on both groups

MUTS = [
    # ---- mutual_information
    ("mi-sum-axis-a", MI, "n_obs_a_i = jc.sum(axis=-1)", "n_obs_a_i = jc.sum(axis=-2)"),
    ("mi-sum-axis-b", MI, "n_obs_b_i = jc.sum(axis=-2)", "n_obs_b_i = jc.sum(axis=-1)"),
    ("mi-sum-axis0", MI, "n_obs = n_obs_a_i.sum(axis=-1)", "n_obs = n_obs_a_i.sum(axis=0)"),
    ("mi-mask-ge", MI, "P_a = np.divide(n_obs_a_i, n_obs[..., None],\n                    where=n_obs[..., None] > 0",
     "P_a = np.divide(n_obs_a_i, n_obs[..., None],\n                    where=n_obs[..., None] >= 0"),
    ("mi-no-out", MI, "                      where=n_obs[..., None, None] > 0,\n                      out=np.zeros(jc.shape, dtype=float))",
     "                      where=n_obs[..., None, None] > 0)"),
    ("mi-no-mask", MI, "P_b = np.divide(n_obs_b_i, n_obs[..., None],\n                    where=n_obs[..., None] > 0,\n                    out=np.zeros(n_obs_b_i.shape, dtype=float))",
     "P_b = np.divide(n_obs_b_i, n_obs[..., None])"),
    ("mi-wrong-marginal", MI, "P_b = np.divide(n_obs_b_i,", "P_b = np.divide(n_obs_a_i,"),
    ("mi-wrong-marginal-2", MI, "P_b = np.divide(n_obs_b_i, n_obs[..., None],\n                    where=n_obs[..., None] > 0,\n                    out=np.zeros(n_obs_b_i.shape, dtype=float))",
     "P_b = np.divide(n_obs_a_i, n_obs[..., None],\n                    where=n_obs[..., None] > 0,\n                    out=np.zeros(n_obs_a_i.shape, dtype=float))"),
    ("mi-tables-swapped-in-loop", MI, "P_x = P_a[i, j]\n            P_y = P_b[i, j]", "P_x = P_b[i, j]\n            P_y = P_a[i, j]"),
    ("mi-wrong-divisor", MI, "P_a = np.divide(n_obs_a_i, n_obs[..., None],", "P_a = np.divide(n_obs_a_i, n_obs_a_i,"),
    ("mi-log2", MI, "np.log(P_x_y[u, v]/(P_x[u]*P_y[v])))", "np.log2(P_x_y[u, v]/(P_x[u]*P_y[v])))"),
    ("mi-undef-drop", MI, "(P_x[u] == 0) or\n                              (P_y[v] == 0))", "(P_x[u] == 0))"),
    ("mi-undef-lt", MI, "unddef = ((P_x_y[u, v] == 0) or", "unddef = ((P_x_y[u, v] != 0) or"),
    ("mi-wrong-product", MI, "(P_x[u]*P_y[v])))", "(P_x[u]*P_x[u])))"),
    ("mi-sum-instead-of-product", MI, "(P_x[u]*P_y[v])))", "(P_x[u]+P_y[v])))"),
    ("mi-cell-transposed", MI, "mi[i, j] += (P_x_y[u, v] *", "mi[j, i] += (P_x_y[u, v] *"),
    ("mi-guard-inverted", MI, "if not unddef:", "if unddef:"),
    ("mi-loop-bounds-swapped", MI, "for u in range(P_x_y.shape[0]):\n                for v in range(P_x_y.shape[1]):",
     "for u in range(P_x_y.shape[1]):\n                for v in range(P_x_y.shape[0]):"),
    ("mi-no-p-factor", MI, "mi[i, j] += (P_x_y[u, v] *\n                                     np.log(", "mi[i, j] += (\n                                     np.log("),
    # ---- joint_counts
    ("jc-narrow-default-x", MI, "n_x = int(X.max())+1", "n_x = X.max()+1"),
    ("jc-narrow-default-y", MI, "n_y = int(Y.max())+1", "n_y = int(Y.max()+1)"),
    ("jc-default-no-plus1", MI, "n_x = int(X.max())+1", "n_x = int(X.max())"),
    ("jc-no-astype-y", MI, "            Y = Y.astype(common)\n", ""),
    ("jc-no-float-escape", MI, "            if (common.kind == 'f' and X.dtype.kind in 'iu' and\n                    Y.dtype.kind in 'iu'):\n                # int64 with uint64: there is no wider integer type; ids that\n                # do not fit int64 turn negative and are rejected below\n                common = np.dtype(np.int64)\n", ""),
    ("jc-escape-int32", MI, "common = np.dtype(np.int64)", "common = np.dtype(np.int32)"),
    ("jc-common-is-x", MI, "common = np.promote_types(X.dtype, Y.dtype)", "common = X.dtype"),
    ("jc-swapped-counts", MI, "jc = libinfo.matrix_bincount2d(X, Y, n_x, n_y)", "jc = libinfo.matrix_bincount2d(X, Y, n_y, n_x)"),
    ("jc-self-uses-ny", MI, "jc = libinfo.matrix_bincount2d(X, X, n_x, n_x)", "jc = libinfo.matrix_bincount2d(X, X, n_x, n_y)"),
    ("jc-no-1d-y", MI, "    if Y is not None and len(Y.shape) == 1:\n            Y = Y[..., None]\n", ""),
    ("jc-no-harmonise", MI, "        if X.dtype != Y.dtype:", "        if False:"),
    # ---- channel capacity
    ("cc-fmax", MI, "np.fmin(*np.meshgrid", "np.fmax(*np.meshgrid"),
    ("cc-no-ij", MI, "np.meshgrid(n_x, n_y, indexing='ij')", "np.meshgrid(n_x, n_y)"),
    ("cc-swapped-grid", MI, "np.meshgrid(n_x, n_y, indexing='ij')", "np.meshgrid(n_y, n_x, indexing='ij')"),
    ("cc-no-copy", MI, "    mi = mi.copy()\n\n    n_x = _validate", "    n_x = _validate"),
    ("cc-log2", MI, "np.divide(mi, np.log(min_num_states), out=mi)", "np.divide(mi, np.log2(min_num_states), out=mi)"),
    ("cc-multiply", MI, "np.divide(mi, np.log(min_num_states), out=mi)", "np.multiply(mi, np.log(min_num_states), out=mi)"),
    ("cc-valid-lt1", MI, "    if np.any(n < 2):", "    if np.any(n < 1):"),
    ("cc-dims-swapped", MI, "n_x = _validate_feature_states_array(n_x, mi.shape[0])", "n_x = _validate_feature_states_array(n_x, mi.shape[1])"),
    ("cc-no-len-check", MI, "    if len(n) != mi_dim:\n        raise exception.DataInvalid(\n            \"Feature states array must match mi array dim 0 \"\n            \"(got %s and %s)\" % (len(n), mi_dim))\n", ""),
    # ---- mi_matrix
    ("mm-overwrite", MI, "            jc += jc_i", "            jc = jc_i"),
    ("mm-min-count", MI, "joint_counts(X, Y, np.max(n_x), np.max(n_y))", "joint_counts(X, Y, np.min(n_x), np.max(n_y))"),
    ("mm-no-shape-test", MI, "            if jc.shape != jc_i.shape:", "            if False:"),
    ("mm-norm-swapped", MI, "mi = channel_capacity_normalization(mi, n_x, n_y)\n\n    return mi\n\n\ndef weighted", "mi = channel_capacity_normalization(mi, n_y, n_x)\n\n    return mi\n\n\ndef weighted"),
    ("mm-swapped-xy", MI, "jc_i = joint_counts(X, Y, np.max(n_x)", "jc_i = joint_counts(Y, X, np.max(n_x)"),
    # ---- entropy.py
    ("en-mask-ge", EN, "where=(p > 0)", "where=(p >= 0)"),
    ("en-no-out", EN, "log_p = np.log(p, where=(p > 0), out=np.zeros(np.shape(p), dtype=float))", "log_p = np.log(p, where=(p > 0))"),
    ("en-log2", EN, "log_p = np.log(p,", "log_p = np.log2(p,"),
    ("en-no-minus", EN, "H = -np.sum(p * log_p)", "H = np.sum(p * log_p)"),
    ("en-norm-max", EN, "p = np.copy(p) / np.sum(p)", "p = np.copy(p) / np.max(p)"),
    ("en-no-asarray", EN, "    p = np.asarray(p)\n", ""),
    ("en-asanyarray", EN, "    p = np.asarray(p)\n", "    p = np.asanyarray(p)\n"),
    ("kl-asanyarray", EN, "    P = np.array(P)\n    Q = np.array(Q)\n", "    P = np.asanyarray(P)\n    Q = np.asanyarray(Q)\n"),
    ("kl-no-conversion-q", EN, "    Q = np.array(Q)\n", ""),
    ("kl-no-nan-repair", EN, "    log_likelihoods[np.where(np.isnan(log_likelihoods))] = 0\n", ""),
    ("kl-ratio-inverted", EN, "log_likelihoods = P * np.log(P / Q)", "log_likelihoods = P * np.log(Q / P)"),
    ("kl-weight-q", EN, "log_likelihoods = P * np.log(P / Q)", "log_likelihoods = Q * np.log(P / Q)"),
    ("kl-reject-zero", EN, "if len(np.where(M < 0)[0]) > 0:", "if len(np.where(M <= 0)[0]) > 0:"),
    ("kl-base-multiply", EN, "divergence /= np.log(base)", "divergence *= np.log(base)"),
    ("kl-log2", EN, "log_likelihoods = P * np.log(P / Q)", "log_likelihoods = P * np.log2(P / Q)"),
    ("kl-only-p-checked", EN, "for M in (P, Q):", "for M in (P,):"),
    ("kl-no-shape-check", EN, "    if P.shape != Q.shape:\n        raise\n", ""),
    # ---- weighted_mi
    ("wmi-swap-layers", MI, "np.matmul((features_1hot[:, :, ii[0]] * weights[:, None]).T,\n                   features_1hot[:, :, ii[1]])",
     "np.matmul((features_1hot[:, :, ii[1]] * weights[:, None]).T,\n                   features_1hot[:, :, ii[0]])"),
    ("wmi-no-weights", MI, "(features_1hot[:, :, ii[0]] * weights[:, None]).T", "(features_1hot[:, :, ii[0]]).T"),
    ("wmi-no-transpose", MI, "(features_1hot[:, :, ii[0]] * weights[:, None]).T", "(features_1hot[:, :, ii[0]] * weights[:, None])"),
    ("wmi-meshgrid-swapped", MI, "np.meshgrid(P_marg[:, ii[1]],\n                                        P_marg[:, ii[0]])", "np.meshgrid(P_marg[:, ii[0]],\n                                        P_marg[:, ii[1]])"),
    ("wmi-mask-inverted", MI, "where=(P_prod_marg != 0), out=mi_mats)", "where=(P_prod_marg == 0), out=mi_mats)"),
    ("wmi-log-mask-gt", MI, "np.log(mi_mats, where=mi_mats != 0, out=mi_mats)", "np.log(mi_mats, where=mi_mats > 0, out=mi_mats)"),
    ("wmi-log-no-mask", MI, "np.log(mi_mats, where=mi_mats != 0, out=mi_mats)", "np.log(mi_mats, out=mi_mats)"),
    ("wmi-no-clip", MI, "    np.clip(mi_mtx, a_min=0, a_max=np.inf, out=mi_mtx)\n", ""),
    ("wmi-sum-axis1", MI, "mi_mtx = mi_mats.sum(axis=0)", "mi_mtx = mi_mats.sum(axis=1)"),
    ("wmi-no-minlength", MI, "weights=weights,\n                                    minlength=max_n_fstates)", "weights=weights)"),
    ("wmi-product-same-grid", MI, "P_prod_marg[:, 0, :, :] * P_prod_marg[:, 1, :, :]", "P_prod_marg[:, 0, :, :] * P_prod_marg[:, 0, :, :]"),
    ("wmi-default-int8", MI, "dtype='int16')", "dtype='int8')"),
    ("wmi-default-no-plus1", MI, "features.max() + 1,", "features.max() + 0,"),
    ("wmi-no-multiply", MI, "    np.multiply(P_joint, mi_mats, out=mi_mats)\n", ""),
    ("wmi-divide-swapped", MI, "np.divide(P_joint, P_prod_marg, where=(P_prod_marg != 0), out=mi_mats)", "np.divide(P_prod_marg, P_joint, where=(P_prod_marg != 0), out=mi_mats)"),
    ("wmi-no-renorm", MI, "    if weights.sum() != 1:\n        weights = (weights / np.linalg.norm(weights, ord=1))\n", ""),
    ("wmi-log2", MI, "np.log(mi_mats, where=mi_mats != 0, out=mi_mats)", "np.log2(mi_mats, where=mi_mats != 0, out=mi_mats)"),
    ("wmi-onehot-range", MI, "np.dstack([features == u for u in range(max_n_fstates)])", "np.dstack([features == u + 1 for u in range(max_n_fstates)])"),
    ("wmi-accept-negative-weights", MI, "    assert np.all(weights >= 0)\n", ""),
    ("wmi-norm-counts-swapped", MI, "mi_mtx, n_feature_states, n_feature_states)", "mi_mtx, max_n_fstates, max_n_fstates)"),
    # ---- kl 2-D
    ("kl-axis-sum-0", EN, "        axis_sum = 1\n", "        axis_sum = 0\n"),
    # ---- harmless rewrites
    ("ok-rename-local", MI, None, None),
    ("ok-zeros-positional", MI, "mi = np.zeros(shape=jc.shape[0:2])", "mi = np.zeros(jc.shape[0:2])"),
    ("ok-reorder-tables", MI, None, None),
    ("ok-extra-logging", MI, "    jc = None\n    for i, (X, Y)", "    jc = None\n    logger.info('pooling')\n    for i, (X, Y)"),
    ("ok-undef-clause-order", MI, "unddef = ((P_x_y[u, v] == 0) or\n                              (P_x[u] == 0) or", "unddef = ((P_x[u] == 0) or\n                              (P_x_y[u, v] == 0) or"),
    ("ok-np-max-call", MI, "n_x = int(X.max())+1", "n_x = int(np.max(X)) + 1"),
    ("ok-entropy-no-copy", EN, "p = np.copy(p) / np.sum(p)", "p = p / np.sum(p)"),
    ("ok-kl-np-any", EN, "if len(np.where(M < 0)[0]) > 0:", "if np.any(M < 0):"),
]


def special(name, src):
    if name == "ok-rename-local":
        import re
        return re.sub(r"\bn_obs\b", "n_total", src)
    if name == "ok-reorder-tables":
        a = src.index("    P_a = np.divide(n_obs_a_i")
        b = src.index("    P_b = np.divide(n_obs_b_i")
        c = src.index("    assert np.all(~np.isnan(P_a))")
        return src[:a] + src[b:c] + src[a:b] + src[c:]
    raise KeyError(name)


def coqc(rel):
    p = subprocess.run(["timeout", "300", "coqc", "-q", "-R", ".", "EV", rel], cwd=COQ, capture_output=True, text=True)
    return p.returncode == 0, (p.stdout + p.stderr)


def setup():
    if os.path.isdir(COQ):
        shutil.rmtree(COQ)
    for d in ("Gen", "Base", "Model", "Proof"):
        os.makedirs(os.path.join(COQ, d))
    for rel in ("Model/JointCounts.vo", "Model/Info.vo", "Base/InfoPyBase.vo", "Proof/JointCountsProofs.vo",
                "Proof/JointShape.vo", "Proof/JointPooled.vo", "Proof/InfoProofs.vo", "Proof/InfoEndToEnd.vo"):
        shutil.copy("/verif/coq/" + rel, os.path.join(COQ, rel))
    for rel in sum(PROOFS.values(), []) + LAST:
        if os.path.exists("/verif/coq/" + rel):
            shutil.copy("/verif/coq/" + rel, os.path.join(COQ, rel))


def run(name, rel, old, new, base):
    d = os.path.join(W, "m", name)
    if os.path.isdir(d):
        shutil.rmtree(d)
    os.makedirs(os.path.join(d, "enspara/info_theory"))
    for r in (MI, EN):
        shutil.copy("/repo/" + r, os.path.join(d, r))
    p = os.path.join(d, rel)
    src = open(p).read()
    if old is None:
        mutated = special(name, src)
    else:
        if src.count(old) != 1:
            return "BAD-MUTATION (pattern found %d times)" % src.count(old)
        mutated = src.replace(old, new)
    if mutated == src:
        return "BAD-MUTATION (no change)"
    try:
        compile(mutated, p, "exec")
    except SyntaxError as ex:
        return "BAD-MUTATION (syntax: %s)" % ex
    open(p, "w").write(mutated)
    try:
        out = tr_infopy.translate(d)
    except TranslatorReject as ex:
        return "REJECT  %s" % str(ex)[:150]
    changed = [k for k in out if out[k] != base[k]]
    if not changed:
        return "IDENTICAL generated text"
    verdict = []
    for k in sorted(out):
        open(os.path.join(COQ, k), "w").write(out[k])
    for k in ("Gen/MutualInfoGen.v", "Gen/EntropyGen.v"):
        ok, o = coqc(k)
        if not ok:
            return "GEN-BROKEN %s: %s" % (k, o.strip().splitlines()[-1][:120] if o.strip() else "")
    for k in changed + ["last"]:
        for pf in (PROOFS[k] if k != "last" else (LAST if not verdict else [])):
            if not os.path.exists(os.path.join(COQ, pf)):
                continue
            ok, o = coqc(pf)
            if not ok:
                lines = [l for l in o.strip().splitlines() if l.strip()]
                verdict.append("PROOF-BREAKS %s (%s)" % (pf, lines[0][:80] if lines else ""))
                break
    return "; ".join(verdict) if verdict else "SURVIVES (text changed, all proofs still compile)"


if __name__ == "__main__":
    only = sys.argv[1:]
    setup()
    base = tr_infopy.translate("/repo")
    for k in sorted(base):
        open(os.path.join(COQ, k), "w").write(base[k])
    for k in ("Gen/MutualInfoGen.v", "Gen/EntropyGen.v"):
        ok, o = coqc(k)
        assert ok, o
    for pf in sum(PROOFS.values(), []) + LAST:
        if os.path.exists(os.path.join(COQ, pf)):
            ok, o = coqc(pf)
            print("baseline", pf, "ok" if ok else "FAILED " + o[-300:])
    for name, rel, old, new in MUTS:
        if only and not any(name.startswith(x) for x in only):
            continue
        print("%-28s %s" % (name, run(name, rel, old, new, base)), flush=True)
        # restore baseline gen for the next mutant
        for k in sorted(base):
            open(os.path.join(COQ, k), "w").write(base[k])
