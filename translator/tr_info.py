"""enspara/info_theory/libinfo.pyx: matrix_bincount2d  ->  Gen/InfoGen.v

The .pyx is not Python.  The function is cut out textually (decorators, `def` up to the next line at
column 0); its Cython-only parts are checked against fixed patterns and rewritten to plain Python,
the rest is parsed with `ast`.  Fail-closed: any line, statement or expression outside the tables
below raises TranslatorReject.

Cython-only text accepted
    @cython.boundscheck(False) / @cython.wraparound(False)            decorators (any subset)
    def matrix_bincount2d(INTEGRAL_2D_ARRAY a, INTEGRAL_2D_ARRAY b, int n_a, int n_b):
    cdef np.ndarray[np.uint32_t, ndim=4] NAME = <expr>                 the table
    cdef long NAME, NAME, ...                                          index variables
    cdef long NAME = <expr>                                            only if NAME is never read
Statements accepted, in this order
    assert <e1> <op> <e2> [, "message"]        op in < <= > >= ==              -> gen_validate
    TABLE = np.zeros((d0, d1, d2, d3), dtype=np.uint32)                         -> gen_kernel
    for V in prange(<d>, nogil=True):  /  for V in range(<d>):   nested, one statement per level
        NAME = ARR[V, V]                       (innermost level only)
        TABLE[V, V, <i>, <j>] += 1             (last statement of the innermost level)
    return TABLE
Expressions: ARR.shape[0|1], ARR.max(), ARR.min(), n_a, n_b, integer literals, literal ** literal
(in asserts); ARR.shape[0|1], n_a, n_b (dimensions and loop bounds); a `long` name bound in the
innermost body or ARR[V, V] (state indices of the increment).
The variable of the prange loop must be the leading index of the incremented cell (each parallel
iteration owns TABLE[V, ...]).
"""
import ast, os, re
from pyast import reject
from core import TranslatorReject

REL = "enspara/info_theory/libinfo.pyx"
FN = "matrix_bincount2d"
ARRS = ("a", "b")
SCALARS = ("n_a", "n_b")
DECORATORS = ("@cython.boundscheck(False)", "@cython.wraparound(False)")
CMP = {ast.Lt: "Z.ltb", ast.LtE: "Z.leb", ast.Gt: "Z.gtb", ast.GtE: "Z.geb", ast.Eq: "Z.eqb"}


def cut(src):
    m = re.search(r"^((?:@[^\n]*\n)*)def %s\(.*?(?=^\S|\Z)" % FN, src, flags=re.S | re.M)
    if not m:
        raise TranslatorReject("%s: def %s not found" % (REL, FN))
    text = m.group(0)
    decos = [l.strip() for l in m.group(1).splitlines() if l.strip()]
    for d in decos:
        if d not in DECORATORS:
            raise TranslatorReject("%s: unexpected decorator %s" % (REL, d))
    text = text[len(m.group(1)):]
    sig = re.match(r"def %s\(\s*INTEGRAL_2D_ARRAY a,\s*INTEGRAL_2D_ARRAY b,\s*int n_a,\s*int n_b\s*\):" % FN, text)
    if not sig:
        raise TranslatorReject("%s: unexpected signature of %s" % (REL, FN))
    text = "def %s(a, b, n_a, n_b):" % FN + text[sig.end():]
    longs, table, dead = [], [], []
    out = []
    for line in text.split("\n"):
        s = line.strip()
        if not s.startswith("cdef"):
            out.append(line)
            continue
        ind = line[:len(line) - len(line.lstrip())]
        m1 = re.fullmatch(r"cdef long (\w+(?:\s*,\s*\w+)*)", s)
        m2 = re.fullmatch(r"cdef long (\w+) = (.+)", s)
        m3 = re.fullmatch(r"cdef np\.ndarray\[np\.uint32_t, ndim=4\] (\w+) = (.+)", s)
        if m1:
            longs += [x.strip() for x in m1.group(1).split(",")]
            out.append(ind + "pass")
        elif m2:
            dead.append(m2.group(1))
            out.append(ind + "%s = %s" % (m2.group(1), m2.group(2)))
        elif m3:
            table.append(m3.group(1))
            out.append(ind + "%s = %s" % (m3.group(1), m3.group(2)))
        else:
            raise TranslatorReject("%s: unsupported cdef line: %s" % (REL, s))
    if len(table) != 1:
        raise TranslatorReject("%s: expected exactly one uint32 4-D table, found %s" % (REL, table))
    try:
        tree = ast.parse("\n".join(out))
    except SyntaxError as ex:
        raise TranslatorReject("%s: %s is not plain Python after removing cdef: %s" % (REL, FN, ex))
    if len(tree.body) != 1 or not isinstance(tree.body[0], ast.FunctionDef):
        raise TranslatorReject("%s: unexpected shape of %s" % (REL, FN))
    return tree.body[0], set(longs), table[0], dead


def shape_of(e):
    """ARR.shape[k] -> coq Z term, or None"""
    if isinstance(e, ast.Subscript) and isinstance(e.value, ast.Attribute) and e.value.attr == "shape" \
            and isinstance(e.value.value, ast.Name) and e.value.value.id in ARRS \
            and isinstance(e.slice, ast.Constant) and type(e.slice.value) is int and e.slice.value in (0, 1):
        return "(ashape %s %d)" % (e.value.value.id, e.slice.value)
    return None


def int_lit(e):
    if isinstance(e, ast.Constant) and type(e.value) is int:
        return e.value
    if isinstance(e, ast.BinOp) and isinstance(e.op, ast.Pow):
        l, r = int_lit(e.left), int_lit(e.right)
        if l is not None and r is not None and 0 <= r <= 128:
            return l ** r
    if isinstance(e, ast.UnaryOp) and isinstance(e.op, ast.USub):
        v = int_lit(e.operand)
        return None if v is None else -v
    return None


def total_z(e):
    """dimension / loop bound: cannot raise"""
    s = shape_of(e)
    if s:
        return s
    if isinstance(e, ast.Name) and e.id in SCALARS:
        return e.id
    reject(e, "expected ARR.shape[0|1], n_a or n_b")


def assert_operand(e):
    """-> coq term of type option Z"""
    s = shape_of(e)
    if s:
        return "(Some %s)" % s
    if isinstance(e, ast.Name) and e.id in SCALARS:
        return "(Some %s)" % e.id
    v = int_lit(e)
    if v is not None:
        return "(Some (%d))" % v
    if isinstance(e, ast.Call) and not e.args and not e.keywords and isinstance(e.func, ast.Attribute) \
            and e.func.attr in ("max", "min") and isinstance(e.func.value, ast.Name) and e.func.value.id in ARRS:
        return "(a%s %s)" % (e.func.attr, e.func.value.id)
    reject(e, "unsupported operand of an assert")


def do_assert(s):
    if s.msg is not None and not (isinstance(s.msg, ast.Constant) and isinstance(s.msg.value, str)):
        reject(s, "assert message must be a string literal")
    t = s.test
    if not (isinstance(t, ast.Compare) and len(t.ops) == 1 and type(t.ops[0]) in CMP):
        reject(s, "assert: expected one comparison with < <= > >= ==")
    return "ocmp %s %s %s" % (CMP[type(t.ops[0])], assert_operand(t.left), assert_operand(t.comparators[0]))


def do_alloc(s, table):
    if not (isinstance(s, ast.Assign) and len(s.targets) == 1 and isinstance(s.targets[0], ast.Name)
            and s.targets[0].id == table):
        reject(s, "expected the allocation of %s" % table)
    v = s.value
    ok = isinstance(v, ast.Call) and ast.unparse(v.func) == "np.zeros" and len(v.args) == 1 \
        and isinstance(v.args[0], ast.Tuple) and len(v.args[0].elts) == 4 \
        and len(v.keywords) == 1 and v.keywords[0].arg == "dtype" and ast.unparse(v.keywords[0].value) == "np.uint32"
    if not ok:
        reject(s, "expected np.zeros((d0, d1, d2, d3), dtype=np.uint32)")
    return "zeros4z %s" % " ".join(total_z(d) for d in v.args[0].elts)


def loop_head(s, outermost):
    """-> (var, bound term, is_parallel)"""
    if not (isinstance(s, ast.For) and isinstance(s.target, ast.Name) and not s.orelse
            and isinstance(s.iter, ast.Call) and isinstance(s.iter.func, ast.Name) and len(s.iter.args) == 1):
        reject(s, "expected `for V in range(d)` / `for V in prange(d, nogil=True)`")
    f = s.iter.func.id
    if f == "range":
        if s.iter.keywords:
            reject(s, "range with keywords")
        par = False
    elif f == "prange":
        kw = s.iter.keywords
        if not (outermost and len(kw) == 1 and kw[0].arg == "nogil" and isinstance(kw[0].value, ast.Constant)
                and kw[0].value.value is True):
            reject(s, "prange is accepted only as the outermost loop, as prange(d, nogil=True)")
        par = True
    else:
        reject(s, "unsupported loop iterator")
    return s.target.id, total_z(s.iter.args[0]), par


def elem(e, loopvars):
    """ARR[V, V] -> coq Z term, or None"""
    if isinstance(e, ast.Subscript) and isinstance(e.value, ast.Name) and e.value.id in ARRS \
            and isinstance(e.slice, ast.Tuple) and len(e.slice.elts) == 2 \
            and all(isinstance(x, ast.Name) and x.id in loopvars for x in e.slice.elts):
        return "(at2 %s %s %s)" % (e.value.id, e.slice.elts[0].id, e.slice.elts[1].id)
    return None


def innermost(stmts, loopvars, longs, table, par_var):
    if not stmts:
        reject(ast.Pass(), "empty loop body")
    lets, bound = [], {}
    for s in stmts[:-1]:
        if not (isinstance(s, ast.Assign) and len(s.targets) == 1 and isinstance(s.targets[0], ast.Name)):
            reject(s, "expected NAME = ARR[V, V]")
        name = s.targets[0].id
        v = elem(s.value, loopvars)
        if v is None or name not in longs or name in loopvars or name in bound or name in ARRS + SCALARS + (table,):
            reject(s, "expected NAME = ARR[V, V] with NAME a fresh `long` variable")
        bound[name] = True
        lets.append("let %s := %s in" % (name, v))
    s = stmts[-1]
    ok = isinstance(s, ast.AugAssign) and isinstance(s.op, ast.Add) and int_lit(s.value) == 1 \
        and isinstance(s.target, ast.Subscript) and isinstance(s.target.value, ast.Name) \
        and s.target.value.id == table and isinstance(s.target.slice, ast.Tuple) and len(s.target.slice.elts) == 4
    if not ok:
        reject(s, "expected %s[V, V, i, j] += 1 as the last statement of the innermost loop" % table)
    e0, e1, e2, e3 = s.target.slice.elts
    for e in (e0, e1):
        if not (isinstance(e, ast.Name) and e.id in loopvars):
            reject(e, "the two leading indices must be loop variables")
    if par_var is not None and e0.id != par_var:
        reject(s, "the prange variable %s must be the leading index of the incremented cell" % par_var)
    idx = []
    for e in (e2, e3):
        if isinstance(e, ast.Name) and e.id in bound:
            idx.append(e.id)
        else:
            v = elem(e, loopvars)
            if v is None:
                reject(e, "state index must be a bound `long` name or ARR[V, V]")
            idx.append(v)
    return "%s incr4z %s %s %s %s %s" % (" ".join(lets), table, e0.id, e1.id, idx[0], idx[1])


def loops(s, loopvars, longs, table, par_var, depth):
    var, bound, par = loop_head(s, depth == 0)
    if var in loopvars or var not in longs or var in ARRS + SCALARS + (table,):
        reject(s, "loop variable %s must be a fresh `long` variable" % var)
    if par:
        par_var = var
    loopvars = loopvars + [var]
    if len(s.body) == 1 and isinstance(s.body[0], ast.For):
        inner = loops(s.body[0], loopvars, longs, table, par_var, depth + 1)
    else:
        inner = innermost(list(s.body), loopvars, longs, table, par_var)
    pad = "  " * (depth + 2)
    return "for_range %s (fun %s %s =>\n%s%s) %s" % (bound, table, var, pad, inner, table)


def translate(repo):
    p = os.path.join(repo, REL)
    try:
        with open(p) as f:
            src = f.read()
    except OSError as ex:
        raise TranslatorReject("%s: %s" % (REL, ex))
    fn, longs, table, dead = cut(src)
    if [a.arg for a in fn.args.args] != ["a", "b", "n_a", "n_b"]:
        reject(fn, "unexpected signature")
    if table in ARRS + SCALARS or table in longs:
        reject(fn, "table name clashes")
    body = [s for s in fn.body if not (isinstance(s, ast.Expr) and isinstance(s.value, ast.Constant))]
    # a `cdef long NAME = expr` is tolerated only when NAME is dead
    for name in dead:
        uses = [n for n in ast.walk(fn) if isinstance(n, ast.Name) and n.id == name]
        if len(uses) != 1 or not isinstance(uses[0].ctx, ast.Store):
            raise TranslatorReject("%s: `cdef long %s = ...` is read somewhere: not translated" % (REL, name))
    asserts = []
    i = 0
    while i < len(body) and isinstance(body[i], ast.Assert):
        asserts.append(do_assert(body[i]))
        i += 1
    rest = [s for s in body[i:] if not isinstance(s, ast.Pass)
            and not (isinstance(s, ast.Assign) and len(s.targets) == 1 and isinstance(s.targets[0], ast.Name)
                     and s.targets[0].id in dead and total_z(s.value))]
    if len(rest) != 3:
        reject(fn, "expected: asserts; allocation; one loop nest; return (found %d statements after the asserts)" % len(rest))
    alloc = do_alloc(rest[0], table)
    nest = loops(rest[1], [], longs, table, None, 0)
    r = rest[2]
    if not (isinstance(r, ast.Return) and isinstance(r.value, ast.Name) and r.value.id == table):
        reject(r, "expected `return %s`" % table)
    par_axis = "Some 0%nat" if "prange" in ast.unparse(rest[1].iter) else "None"
    validate = "\n  && ".join("(%s)" % a for a in asserts) if asserts else "true"
    out = ["(* GENERATED by translator/tr_info.py from %s:%s -- do not edit *)" % (REL, FN),
           "From Coq Require Import List ZArith Bool.", "From EV Require Import JointCounts InfoBase.",
           "Import ListNotations.", "Open Scope Z_scope.", "",
           "(* the assert statements, in source order *)",
           "Definition gen_validate (a b : list (list Z)) (n_a n_b : Z) : bool :=\n  %s.\n" % validate,
           "(* allocation and loop nest; the cell written by one iteration *)",
           "Definition gen_kernel (a b : list (list Z)) (n_a n_b : Z) : tbl4 :=\n  let %s := %s in\n  %s.\n" % (
               table, alloc, nest),
           "(* position, in the index tuple of the increment, of the prange variable *)",
           "Definition gen_parallel_axis : option nat := %s.\n" % par_axis,
           "Definition gen_matrix_bincount2d (a b : list (list Z)) (n_a n_b : Z) : option tbl4 :=\n"
           "  if gen_validate a b n_a n_b then Some (gen_kernel a b n_a n_b) else None.\n"]
    return {"Gen/InfoGen.v": "\n".join(out)}


if __name__ == "__main__":
    import sys
    print(translate(sys.argv[1] if len(sys.argv) > 1 else "/repo")["Gen/InfoGen.v"])
