"""enspara/msm/transition_matrices.py (eigenspectrum), enspara/msm/timescales.py (calc_imp_times,
implied_timescales), enspara/msm/synthetic_data.py (synthetic_ensemble), enspara/msm/msm.py (MSM.save,
MSM.load)   ->   Gen/MsmSpecGen.v (over Base/MsmSpecBase.v)  and  Gen/MsmAuxGen.v (over Base/MsmAuxBase.v)

Fail-closed: a typed expression translator (types below) plus a statement translator that knows
assignments, `x = e if c else x`-style conditionals, `m[:, k] /= s`, `l.append(e)`, counted `for`
loops whose body is translated again, `return`.  Anything else raises TranslatorReject.

  eigenspectrum      gen_n_eigs        n_eigs None -> T.shape[0]; n_eigs < 2 -> ValueError
                     gen_solver        T.T if left; toarray for small sparse input; eig / eigs(..) as data
                     gen_post          argsort(-real(vals)), reordering, vecs[:, 0] /= vecs[:, 0].sum(),
                                       slicing to n_eigs, real parts
                     gen_eigenspectrum their composition, in statement order
  calc_imp_times     gen_imp_eig_call  n_times += 1; eigenspectrum(T, n_eigs=n_times) bound against
                                       eigenspectrum's own signature (left / maxiter / tol defaults)
                     gen_imp_formula   -lag_time / np.log(e_vals[1:])                      (over R)
  implied_timescales gen_implied_timescales   n_states, n_times (None / cap), one calc_imp_times call per
                                       lag time, bound against calc_imp_times' own signature
  synthetic_ensemble gen_ensemble / gen_ensemble_obs   one definition per branch of
                                       `observable_per_state is not None`
  MSM.save / load    gen_default_fnames, gen_save_table, gen_load_table, gen_manifest_*

Types: Z B OZ Q (exact rational) MX (abstract matrix) CV QV IX CM QM C (eigenspectrum);
       A MTH LZ (implied_timescales);  MAT V S LS LV OV (synthetic_ensemble);  RV R (formula over R).
"""
import ast
from fractions import Fraction
from pyast import parse_file, find_func, reject, strip_doc
from core import TranslatorReject

REL_TM = "enspara/msm/transition_matrices.py"
REL_TS = "enspara/msm/timescales.py"
REL_SD = "enspara/msm/synthetic_data.py"
REL_MSM = "enspara/msm/msm.py"
U = ast.unparse

COQ_TY = {"Z": "Z", "B": "bool", "OZ": "option Z", "Q": "Q", "MX": "Mx", "CV": "list cplx", "QV": "list Q",
          "IX": "list nat", "CM": "list (list cplx)", "QM": "list (list Q)", "C": "cplx",
          "A": "A", "MTH": "Mth", "LZ": "list Z", "MAT": "Builders.mat", "V": "list Q", "S": "Q",
          "LS": "list Q", "LV": "list (list Q)", "RV": "list R", "R": "R"}


def need(c, node, why):
    if not c:
        reject(node, why)


def dotted(e):
    """a.b.c -> 'a.b.c' for pure Name/Attribute chains, else None"""
    parts = []
    while isinstance(e, ast.Attribute):
        parts.append(e.attr)
        e = e.value
    if isinstance(e, ast.Name):
        parts.append(e.id)
        return ".".join(reversed(parts))
    return None


def is_logging(s):
    return (isinstance(s, ast.Expr) and isinstance(s.value, ast.Call) and isinstance(s.value.func, ast.Attribute)
            and isinstance(s.value.func.value, ast.Name) and s.value.func.value.id == "logger"
            and s.value.func.attr in ("debug", "info", "warning", "error"))


def qlit(fr):
    fr = Fraction(fr)
    return "(%d # %d)" % (fr.numerator, fr.denominator)


def const_of(e):
    """default values / literals -> (text, type)"""
    if isinstance(e, ast.Constant):
        v = e.value
        if v is True:
            return "true", "B"
        if v is False:
            return "false", "B"
        if v is None:
            return "None", "NONE"
        if isinstance(v, int):
            return "(%d)%%Z" % v, "Z"
        if isinstance(v, float):
            # the decimal literal as written in the source (1E-30 is not a double's exact value, but it is
            # what the source says)
            return qlit(Fraction(str(v))), "Q"
    if isinstance(e, ast.UnaryOp) and isinstance(e.op, ast.USub):
        t, ty = const_of(e.operand)
        if ty == "Z":
            return "(- %s)%%Z" % t, "Z"
    reject(e, "expected a constant")


def signature(fn, types):
    """[(name, type, default text or None)]"""
    a = fn.args
    need(not (a.vararg or a.kwarg or a.kwonlyargs or a.posonlyargs), fn, "unsupported parameter kinds")
    names = [x.arg for x in a.args]
    need(names == [n for n, _ in types], fn, "unexpected parameters %s (expected %s)" % (names, [n for n, _ in types]))
    nd = len(a.defaults)
    out = []
    for i, (n, ty) in enumerate(types):
        d = None
        k = i - (len(names) - nd)
        if k >= 0:
            t, have = const_of(a.defaults[k])
            if have == "NONE":
                need(ty in ("OZ", "OV"), a.defaults[k], "None default for a parameter of type %s" % ty)
                t = "None"
            elif ty == "OZ" and have == "Z":
                t = "(Some %s)" % t
            else:
                need(have == ty, a.defaults[k], "default of %s has type %s, expected %s" % (n, have, ty))
            d = t
        out.append((n, ty, d))
    return out


# ============================================================================ expressions
class Ctx:
    """env: name -> type.  Monadic sub-expressions (option-valued vocabulary) are hoisted into `pre`."""

    def __init__(self, env, mode):
        self.env = dict(env)
        self.mode = mode            # 'eig' | 'imp' | 'ens' | 'real'
        self.pre = []               # hoisted "obind (...) (fun m =>" lines
        self.fresh = 0
        self.closers = 0


CMPZ = {ast.Lt: "(%s <? %s)%%Z", ast.LtE: "(%s <=? %s)%%Z", ast.Eq: "(%s =? %s)%%Z"}


def ex(e, cx):
    """-> (text, type)"""
    env = cx.env
    if isinstance(e, ast.Name):
        need(e.id in env, e, "unknown name %s" % e.id)
        return e.id, env[e.id]
    if isinstance(e, ast.Constant):
        t, ty = const_of(e)
        need(ty in ("Z", "B"), e, "unsupported literal")
        return t, ty
    if isinstance(e, ast.UnaryOp) and isinstance(e.op, ast.USub):
        t, ty = ex(e.operand, cx)
        if ty == "Z":
            return "(- %s)%%Z" % t, "Z"
        if ty == "QV":
            return "(np_neg %s)" % t, "QV"
        if ty == "RV":
            return "(r_neg %s)" % t, "RV"
        reject(e, "negation of a %s" % ty)
    if isinstance(e, ast.UnaryOp) and isinstance(e.op, ast.Not):
        t, ty = ex(e.operand, cx)
        need(ty == "B", e, "not of a %s" % ty)
        return "(negb %s)" % t, "B"
    if isinstance(e, ast.BinOp):
        return binop(e, cx)
    if isinstance(e, ast.BoolOp):
        parts = [ex(v, cx) for v in e.values]
        need(all(ty == "B" for _, ty in parts), e, "boolean operator on non-booleans")
        op = " && " if isinstance(e.op, ast.And) else " || "
        return "(" + op.join(t for t, _ in parts) + ")", "B"
    if isinstance(e, ast.Compare):
        need(len(e.ops) == 1, e, "chained comparison")
        a, ta = ex(e.left, cx)
        b, tb = ex(e.comparators[0], cx)
        need(ta == "Z" and tb == "Z", e, "comparison of %s and %s" % (ta, tb))
        op = type(e.ops[0])
        if op in CMPZ:
            return CMPZ[op] % (a, b), "B"
        if op is ast.Gt:
            return CMPZ[ast.Lt] % (b, a), "B"
        if op is ast.GtE:
            return CMPZ[ast.LtE] % (b, a), "B"
        if op is ast.NotEq:
            return "(negb %s)" % (CMPZ[ast.Eq] % (a, b)), "B"
        reject(e, "unsupported comparison")
    if isinstance(e, ast.IfExp):
        c, tc = ex(e.test, cx)
        a, ta = ex(e.body, cx)
        b, tb = ex(e.orelse, cx)
        need(tc == "B" and ta == tb, e, "conditional expression: test %s, arms %s / %s" % (tc, ta, tb))
        return "(if %s then %s else %s)" % (c, a, b), ta
    if isinstance(e, ast.Attribute):
        v, tv = ex(e.value, cx)
        if tv == "MX" and e.attr == "T":
            return "(mx_T ops %s)" % v, "MX"
        reject(e, "unsupported attribute .%s of a %s" % (e.attr, tv))
    if isinstance(e, ast.Subscript):
        return subscript(e, cx)
    if isinstance(e, ast.Call):
        return call(e, cx)
    if isinstance(e, ast.List) and cx.mode == "ens":
        need(len(e.elts) == 1, e, "only one-element list literals")
        t, ty = ex(e.elts[0], cx)
        if ty == "S":
            return "[%s]" % t, "LS"
        if ty == "V":
            return "[%s]" % t, "LV"
        reject(e, "list of %s" % ty)
    reject(e, "unsupported expression")


def binop(e, cx):
    a, ta = ex(e.left, cx)
    # right operand may be a float constant (10.0) in int(np.floor(x / 10.0)): handled by the caller
    b, tb = ex(e.right, cx)
    op = type(e.op)
    if ta == "Z" and tb == "Z":
        if op is ast.Add:
            return "(%s + %s)%%Z" % (a, b), "Z"
        if op is ast.Sub:
            return "(%s - %s)%%Z" % (a, b), "Z"
        if op is ast.Mult:
            return "(%s * %s)%%Z" % (a, b), "Z"
        if op is ast.FloorDiv:
            need(isinstance(e.right, ast.Constant) and isinstance(e.right.value, int) and e.right.value > 0, e,
                 "floor division by a non-constant")
            return "(py_int_floor_div %s %s)" % (a, b), "Z"
        reject(e, "unsupported integer operator")
    if cx.mode == "real":
        if ta == "Z" and tb == "RV" and op is ast.Div:
            return "(r_sdiv (IZR %s) %s)" % (a, b), "RV"
        if ta == "Z" and tb == "RV" and op is ast.Mult:
            return "(r_smul (IZR %s) %s)" % (a, b), "RV"
        if ta == "RV" and tb == "Z" and op is ast.Div:
            return "(r_vdiv %s (IZR %s))" % (a, b), "RV"
    reject(e, "unsupported operator on %s, %s" % (ta, tb))


def slice_parts(sl, cx):
    """a slice with step None -> ('to', n) | ('from', k) ; else reject"""
    need(isinstance(sl, ast.Slice) and sl.step is None, sl, "unsupported slice")
    if sl.lower is None and sl.upper is not None:
        t, ty = ex(sl.upper, cx)
        need(ty == "Z", sl, "slice bound of type %s" % ty)
        return "to", t
    if sl.upper is None and sl.lower is not None:
        t, ty = ex(sl.lower, cx)
        need(ty == "Z", sl, "slice bound of type %s" % ty)
        return "from", t
    reject(sl, "unsupported slice")


def full_slice(s):
    return isinstance(s, ast.Slice) and s.lower is None and s.upper is None and s.step is None


def subscript(e, cx):
    v, tv = ex(e.value, cx)
    s = e.slice
    if tv == "MX":
        # T.shape[0]
        reject(e, "subscript of a matrix")
    if isinstance(s, ast.Tuple):
        need(tv == "CM" and len(s.elts) == 2 and full_slice(s.elts[0]), e, "unsupported 2-d index")
        j = s.elts[1]
        if isinstance(j, ast.Slice):
            kind, n = slice_parts(j, cx)
            need(kind == "to", e, "column slice must be [:, :n]")
            return "(slice_to %s %s)" % (v, n), "CM"          # columns are the outer list
        t, ty = ex(j, cx)
        if ty == "IX":
            return "(take_cols %s %s)" % (v, t), "CM"
        if ty == "Z":
            need(isinstance(j, ast.Constant) and j.value >= 0, e, "column index must be a constant >= 0")
            return "(col %s %s)" % (v, t), "CV"
        reject(e, "column index of type %s" % ty)
    if isinstance(s, ast.Slice):
        if tv == "IX" and s.lower is None and s.upper is None and U(s.step) == "-1":
            return "(np_flip %s)" % v, "IX"
        kind, n = slice_parts(s, cx)
        if tv in ("CV", "QV"):
            return "(slice_%s %s %s)" % (kind, v, n), tv
        if tv == "RV":
            return "(r_slice_%s %s %s)" % (kind, v, n), tv
        reject(e, "slice of a %s" % tv)     # incl. CM[:n] (that would cut rows, i.e. every column)
    t, ty = ex(s, cx)
    if tv == "CV" and ty == "IX":
        return "(take %s %s)" % (v, t), "CV"
    reject(e, "unsupported index of type %s into %s" % (ty, tv))


def hoist(cx, text, ty):
    cx.fresh += 1
    n = "m%d" % cx.fresh
    cx.pre.append("obind %s (fun %s =>" % (text, n))
    cx.closers += 1
    return n, ty


def call(e, cx):
    f = e.func
    name = dotted(f)
    args = e.args
    need(not any(isinstance(a, ast.Starred) for a in args), e, "starred argument")
    # T.shape[0] is a Subscript of an Attribute, handled here through the special form below
    if name in ("np.real", "numpy.real"):
        need(len(args) == 1 and not e.keywords, e, "np.real(x)")
        t, ty = ex(args[0], cx)
        if ty == "CV":
            return "(np_real %s)" % t, "QV"
        if ty == "CM":
            return "(np_real_m %s)" % t, "QM"
        reject(e, "np.real of a %s" % ty)
    if name in ("np.argsort", "numpy.argsort"):
        need(len(args) == 1 and not e.keywords, e, "np.argsort(x) without options")
        t, ty = ex(args[0], cx)
        need(ty == "QV", e, "np.argsort of a %s (complex keys sort lexicographically)" % ty)
        return "(np_argsort %s)" % t, "IX"
    if name in ("np.log", "numpy.log") and cx.mode == "real":
        need(len(args) == 1 and not e.keywords, e, "np.log(x)")
        t, ty = ex(args[0], cx)
        need(ty == "RV", e, "np.log of a %s" % ty)
        return "(r_log %s)" % t, "RV"
    if name in ("np.abs", "numpy.abs", "np.absolute", "abs") and cx.mode == "real":
        need(len(args) == 1 and not e.keywords, e, "np.abs(x)")
        t, ty = ex(args[0], cx)
        need(ty == "RV", e, "np.abs of a %s" % ty)
        return "(r_abs %s)" % t, "RV"
    if name in ("scipy.sparse.issparse", "sparse.issparse", "scipy.sparse.isspmatrix"):
        need(len(args) == 1 and not e.keywords, e, "issparse(x)")
        t, ty = ex(args[0], cx)
        if ty == "MX":
            return "(mx_issparse ops %s)" % t, "B"
        if ty == "MAT" and isinstance(args[0], ast.Name) and args[0].id == "T":
            return "T_sparse", "B"
        reject(e, "issparse of a %s" % ty)
    if name == "int" and len(args) == 1 and not e.keywords and isinstance(args[0], ast.Call) \
            and dotted(args[0].func) in ("np.floor", "numpy.floor", "math.floor"):
        g = args[0]
        need(len(g.args) == 1 and not g.keywords and isinstance(g.args[0], ast.BinOp)
             and isinstance(g.args[0].op, ast.Div), e, "expected int(np.floor(a / c))")
        a, ta = ex(g.args[0].left, cx)
        c = g.args[0].right
        need(ta == "Z" and isinstance(c, ast.Constant) and isinstance(c.value, (int, float))
             and not isinstance(c.value, bool) and c.value > 0 and float(c.value).is_integer(), e,
             "expected int(np.floor(<int> / <positive integral constant>))")
        return "(py_int_floor_div %s (%d)%%Z)" % (a, int(c.value)), "Z"
    if name in ("scipy.sparse.linalg.aslinearoperator", "aslinearoperator") and cx.mode == "ens":
        need(len(args) == 1 and not e.keywords, e, "aslinearoperator(x)")
        t, ty = ex(args[0], cx)
        need(ty == "MAT", e, "aslinearoperator of a %s" % ty)
        return "(aslinearoperator %s)" % t, "MAT"
    if name in ("np.array", "numpy.array", "np.asarray") and cx.mode == "ens":
        need(len(args) == 1 and not e.keywords, e, "np.array(x)")
        t, ty = ex(args[0], cx)
        need(ty in ("LS", "LV"), e, "np.array of a %s" % ty)
        return "(np_array %s)" % t, ty
    # method calls
    if isinstance(f, ast.Attribute):
        v, tv = ex(f.value, cx)
        m = f.attr
        if tv == "MX" and m in ("toarray", "tocsr") and not args and not e.keywords:
            return "(mx_%s ops %s)" % (m, v), "MX"
        if tv == "CV" and m == "sum" and not args and not e.keywords:
            return "(np_sum %s)" % v, "C"
        if tv == "A" and m == "max" and not args and not e.keywords:
            return "(assigns_max %s)" % v, "Z"
        if cx.mode == "ens":
            if tv == "MAT" and m == "tocsr" and not args and not e.keywords:
                return "(tocsr %s)" % v, "MAT"
            if tv == "V" and m == "copy" and not args and not e.keywords:
                return "(copy %s)" % v, "V"
            if tv == "V" and m == "dot" and len(args) == 1 and not e.keywords:
                b, tb = ex(args[0], cx)
                need(tb == "V", e, ".dot of a %s" % tb)
                return hoist(cx, "(np_dot %s %s)" % (v, b), "S")
            if tv == "MAT" and m in ("rmatvec", "matvec") and len(args) == 1 and not e.keywords:
                b, tb = ex(args[0], cx)
                need(tb == "V", e, ".%s of a %s" % (m, tb))
                return hoist(cx, "(%s %s %s)" % (m, v, b), "V")
        reject(e, "unsupported method .%s of a %s" % (m, tv))
    reject(e, "unsupported call %s" % (name or "?"))


def ex_shape(e, cx):
    """wrapper: rewrite `X.shape[0]` before the generic translator sees the subscript"""
    class Sh(ast.NodeTransformer):
        def visit_Subscript(self, n):
            n = self.generic_visit(n)
            if isinstance(n.value, ast.Attribute) and n.value.attr == "shape" and isinstance(n.slice, ast.Constant) \
                    and n.slice.value == 0:
                return ast.copy_location(ast.Call(func=ast.Attribute(value=n.value.value, attr="__shape0", ctx=ast.Load()),
                                                  args=[], keywords=[]), n)
            return n
    import copy
    return Sh().visit(copy.deepcopy(e))


_call0 = call


def call(e, cx):                                       # noqa: F811  (adds the shape form)
    if isinstance(e.func, ast.Attribute) and e.func.attr == "__shape0":
        v, tv = ex(e.func.value, cx)
        need(tv == "MX", e, ".shape[0] of a %s" % tv)
        return "(mx_shape0 ops %s)" % v, "Z"
    return _call0(e, cx)


def X(e, cx, want=None):
    t, ty = ex(ex_shape(e, cx), cx)
    if want is not None:
        need(ty == want, e, "type %s where %s expected: %s" % (ty, want, U(e)))
    return t, ty


# ============================================================================ statement chains
class Chain:
    def __init__(self):
        self.lines = []
        self.closers = 0

    def let(self, name, text):
        self.lines.append("let %s := %s in" % (name, text))

    def bind(self, text, pat):
        self.lines.append("obind %s (fun %s =>" % (text, pat))
        self.closers += 1

    def flush(self, cx):
        for p in cx.pre:
            self.lines.append(p)
        self.closers += cx.closers
        cx.pre, cx.closers = [], 0

    def finish(self, final, indent="  "):
        return "\n".join(indent + l for l in self.lines + [final + ")" * self.closers])


def single_target(s):
    need(isinstance(s, ast.Assign) and len(s.targets) == 1, s, "expected a single assignment")
    return s.targets[0]


def st_assign(s, cx, ch, allowed=None):
    """name = expr"""
    t = single_target(s)
    need(isinstance(t, ast.Name), s, "assignment target must be a plain name")
    text, ty = X(s.value, cx)
    ch.flush(cx)
    if allowed is not None:
        need(t.id in allowed, s, "unexpected assignment to %s" % t.id)
    cx.env[t.id] = ty
    ch.let(t.id, text)


def st_if_assign(s, cx, ch):
    """if c: x = e   (no else)  ->  let x := if c then e else x"""
    need(isinstance(s, ast.If) and not s.orelse and len(s.body) == 1, s, "expected `if c: x = e`")
    t = single_target(s.body[0])
    need(isinstance(t, ast.Name) and t.id in cx.env, s, "conditional assignment to an unbound name")
    c, _ = X(s.test, cx, "B")
    text, ty = X(s.body[0].value, cx, cx.env[t.id])
    need(not cx.pre, s, "failing operation inside a conditional")
    ch.let(t.id, "if %s then %s else %s" % (c, text, t.id))


# ============================================================================ eigenspectrum
EIG_SIG = [("T", "MX"), ("n_eigs", "OZ"), ("left", "B"), ("maxiter", "Z"), ("tol", "Q")]
WHICH = ("LM", "SM", "LR", "SR", "LI", "SI")


def assigns_pair(s, a, b):
    return (isinstance(s, ast.Assign) and len(s.targets) == 1 and isinstance(s.targets[0], ast.Tuple)
            and [U(x) for x in s.targets[0].elts] == [a, b])


def solver_branch(stmts, cx):
    """[v0 = np.random.RandomState(seed).uniform(-1, 1, n)]; vals, vecs = <solver call>  -> text"""
    need(1 <= len(stmts) <= 2 and assigns_pair(stmts[-1], "vals", "vecs"), stmts[0], "expected vals, vecs = <solver>(...)")
    cx = Ctx(cx.env, "eig")
    pre = ""
    if len(stmts) == 2:
        s = stmts[0]
        t = single_target(s)
        c = s.value
        ok = (isinstance(t, ast.Name) and isinstance(c, ast.Call) and isinstance(c.func, ast.Attribute)
              and c.func.attr == "uniform" and isinstance(c.func.value, ast.Call)
              and dotted(c.func.value.func) in ("np.random.RandomState", "numpy.random.RandomState")
              and len(c.func.value.args) == 1 and isinstance(c.func.value.args[0], ast.Constant)
              and isinstance(c.func.value.args[0].value, int) and not c.func.value.keywords
              and len(c.args) == 3 and not c.keywords and U(c.args[0]) == "-1" and U(c.args[1]) == "1")
        need(ok, s, "expected v0 = np.random.RandomState(<seed>).uniform(-1, 1, <n>)")
        n, _ = X(c.args[2], cx, "Z")
        pre = "let %s := V0SeededUniform (%d)%%Z %s in " % (t.id, c.func.value.args[0].value, n)
        cx.env[t.id] = "V0"
    c = stmts[-1].value
    need(isinstance(c, ast.Call), c, "expected a solver call")
    name = dotted(c.func)
    if name in ("scipy.linalg.eig", "linalg.eig"):
        need(len(c.args) == 1 and not c.keywords, c, "scipy.linalg.eig(M) without options")
        m, _ = X(c.args[0], cx, "MX")
        return pre + "CallEig %s" % m
    if name in ("scipy.sparse.linalg.eigs",):
        need(1 <= len(c.args) <= 2, c, "eigs(M[, k], ...)")
        m, _ = X(c.args[0], cx, "MX")
        kw = {}
        for k in c.keywords:
            need(k.arg in ("k", "which", "maxiter", "tol", "v0") and k.arg not in kw, c, "unsupported eigs option %s" % k.arg)
            kw[k.arg] = k.value
        if len(c.args) == 2:
            need("k" not in kw, c, "k given twice")
            kw["k"] = c.args[1]
        need(set(kw) == {"k", "which", "maxiter", "tol", "v0"}, c, "eigs: k, which, maxiter, tol and v0 must all be given")
        k, _ = X(kw["k"], cx, "Z")
        w = kw["which"]
        need(isinstance(w, ast.Constant) and w.value in WHICH, w, "which must be a literal")
        mi, _ = X(kw["maxiter"], cx, "Z")
        tol, _ = X(kw["tol"], cx, "Q")
        need(isinstance(kw["v0"], ast.Name) and cx.env.get(kw["v0"].id) == "V0", c, "v0 must be the seeded start vector")
        return pre + "CallEigs %s %s %s %s %s %s" % (m, k, w.value, mi, tol, kw["v0"].id)
    reject(c, "unknown eigen-solver %s" % name)


def tr_eigenspectrum(fn):
    sig = signature(fn, EIG_SIG)
    need([d for _, _, d in sig][1:] and all(d is not None for _, _, d in sig[1:]) and sig[0][2] is None, fn,
         "eigenspectrum: T required, the rest with defaults")
    body = strip_doc(fn.body)
    need(len(body) >= 5, fn, "eigenspectrum: too short")
    # --- 1. the n_eigs guard
    g = body[0]
    ok = (isinstance(g, ast.If) and U(g.test) == "n_eigs is None" and len(g.body) == 1
          and isinstance(g.body[0], ast.Assign) and U(g.body[0].targets[0]) == "n_eigs" and len(g.orelse) == 1
          and isinstance(g.orelse[0], ast.If) and not g.orelse[0].orelse and len(g.orelse[0].body) == 1
          and isinstance(g.orelse[0].body[0], ast.Raise))
    need(ok, g, "expected `if n_eigs is None: n_eigs = ... elif <test>: raise ...`")
    cx = Ctx({"T": "MX"}, "eig")
    dflt, _ = X(g.body[0].value, cx, "Z")
    cx = Ctx({"T": "MX", "n_eigs": "Z"}, "eig")
    bad, _ = X(g.orelse[0].test, cx, "B")
    gen_n = ("Definition gen_n_eigs {Mx} (ops : mx_ops Mx) (T : Mx) (n_eigs : option Z) : option Z :=\n"
             "  match n_eigs with\n  | None => Some %s\n  | Some n_eigs => if %s then None else Some n_eigs\n  end." % (dflt, bad))
    # --- 2. up to the solver
    env = {"T": "MX", "n_eigs": "Z", "left": "B", "maxiter": "Z", "tol": "Q"}
    cx = Ctx(env, "eig")
    ch = Chain()
    i = 1
    solver = None
    while i < len(body):
        s = body[i]
        i += 1
        if isinstance(s, ast.If) and s.orelse and assigns_pair(s.body[-1], "vals", "vecs"):
            c, _ = X(s.test, cx, "B")
            a = solver_branch(s.body, cx)
            b = solver_branch(s.orelse, cx)
            solver = ch.finish("if %s\n  then %s\n  else %s" % (c, a, b))
            break
        if assigns_pair(s, "vals", "vecs"):
            solver = ch.finish(solver_branch([s], cx))
            break
        if isinstance(s, ast.If) and all(is_logging(b) for b in s.body) and not s.orelse:
            X(s.test, cx, "B")                       # must still be well-typed
            continue
        if isinstance(s, ast.If):
            st_if_assign(s, cx, ch)
            need(U(s.body[0].targets[0]) == "T", s, "only T may be rebound before the solver")
            continue
        st_assign(s, cx, ch, allowed=("T",))
    need(solver is not None, fn, "no solver call found")
    gen_s = ("Definition gen_solver {Mx} (ops : mx_ops Mx) (T : Mx) (n_eigs : Z) (left : bool) (maxiter : Z) (tol : Q)\n"
             "  : solver_call Mx :=\n%s." % solver)
    # --- 3. post-processing
    cx = Ctx({"n_eigs": "Z", "vals": "CV", "vecs": "CM"}, "eig")
    ch = Chain()
    ret = None
    for s in body[i:]:
        need(ret is None, s, "statement after return")
        if isinstance(s, ast.Return):
            need(isinstance(s.value, ast.Tuple) and len(s.value.elts) == 2, s, "expected return vals, vecs")
            a, _ = X(s.value.elts[0], cx, "QV")
            b, _ = X(s.value.elts[1], cx, "QM")
            ret = ch.finish("Some (%s, %s)" % (a, b))
        elif isinstance(s, ast.AugAssign):
            t = s.target
            ok = (isinstance(s.op, ast.Div) and isinstance(t, ast.Subscript) and isinstance(t.value, ast.Name)
                  and cx.env.get(t.value.id) == "CM" and isinstance(t.slice, ast.Tuple) and len(t.slice.elts) == 2
                  and full_slice(t.slice.elts[0]) and isinstance(t.slice.elts[1], ast.Constant)
                  and isinstance(t.slice.elts[1].value, int) and t.slice.elts[1].value >= 0)
            need(ok, s, "expected m[:, k] /= s")
            d, _ = X(s.value, cx, "C")
            ch.bind("(col_idiv %s (%d)%%Z %s)" % (t.value.id, t.slice.elts[1].value, d), t.value.id)
        else:
            st_assign(s, cx, ch)
    need(ret is not None, fn, "no return")
    gen_p = ("Definition gen_post (n_eigs : Z) (vals : list cplx) (vecs : list (list cplx))\n"
             "  : option (list Q * list (list Q)) :=\n%s." % ret)
    comp = ("Definition gen_eigenspectrum {Mx} (ops : mx_ops Mx) (run : solver_call Mx -> list cplx * list (list cplx))\n"
            "    (T : Mx) (n_eigs : option Z) (left : bool) (maxiter : Z) (tol : Q) : option (list Q * list (list Q)) :=\n"
            "  obind (gen_n_eigs ops T n_eigs) (fun n_eigs =>\n"
            "  let '(vals, vecs) := run (gen_solver ops T n_eigs left maxiter tol) in\n"
            "  gen_post n_eigs vals vecs).")
    dfl = ["Definition eig_default_%s : %s := %s." % (n, COQ_TY[ty], d) for n, ty, d in sig if d is not None]
    return sig, [gen_n, gen_s, gen_p, comp] + dfl


# ============================================================================ timescales
CALC_SIG = [("assigns", "A"), ("lag_time", "Z"), ("n_states", "Z"), ("n_times", "Z"), ("method", "MTH"),
            ("sliding_window", "B"), ("trim", "B")]
IMPL_SIG = [("assigns", "A"), ("lag_times", "LZ"), ("method", "MTH"), ("n_times", "OZ"), ("sliding_window", "B"),
            ("trim", "B")]


def bind(callnode, sig, cx, what):
    """Python argument binding against sig -> texts in signature order (defaults fill the gaps)"""
    need(len(callnode.args) <= len(sig), callnode, "too many positional arguments for %s" % what)
    bound = {}
    for (n, ty, _), a in zip(sig, callnode.args):
        need(not isinstance(a, ast.Starred), a, "starred argument")
        t, have = X(a, cx)
        if ty == "OZ" and have == "Z":
            t, have = "(Some %s)" % t, "OZ"
        need(have == ty, a, "argument %s of %s: type %s, expected %s" % (n, what, have, ty))
        bound[n] = t
    names = {n: ty for n, ty, _ in sig}
    for kw in callnode.keywords:
        need(kw.arg in names and kw.arg not in bound, callnode, "bad keyword %s for %s" % (kw.arg, what))
        t, have = X(kw.value, cx)
        if names[kw.arg] == "OZ" and have == "Z":
            t, have = "(Some %s)" % t, "OZ"
        need(have == names[kw.arg], kw.value, "argument %s of %s: type %s, expected %s" % (kw.arg, what, have, names[kw.arg]))
        bound[kw.arg] = t
    out = []
    for n, ty, d in sig:
        if n in bound:
            out.append(bound[n])
        else:
            need(d is not None, callnode, "required argument %s of %s missing" % (n, what))
            out.append(d)
    return out


def tr_calc_tail(fn, eig_sig):
    """the statements of calc_imp_times after `_, T, _ = method(C)`"""
    signature(fn, CALC_SIG)
    b = strip_doc(fn.body)
    k = [i for i, s in enumerate(b) if U(s) == "_, T, _ = method(C)"]
    need(len(k) == 1, fn, "expected exactly one `_, T, _ = method(C)`")
    tail = b[k[0] + 1:]
    cx = Ctx({"T": "MX", "n_times": "Z", "lag_time": "Z"}, "imp")
    ch = Chain()
    call_text = None
    formula = None
    pair = None
    for s in tail:
        if isinstance(s, ast.AugAssign):
            need(isinstance(s.target, ast.Name) and cx.env.get(s.target.id) == "Z" and isinstance(s.op, (ast.Add, ast.Sub)), s,
                 "expected <int name> += <int>")
            need(call_text is None, s, "n_times changed after the eigenspectrum call")
            v, _ = X(s.value, cx, "Z")
            ch.let(s.target.id, "(%s %s %s)%%Z" % (s.target.id, "+" if isinstance(s.op, ast.Add) else "-", v))
        elif isinstance(s, ast.Try) or (isinstance(s, ast.Assign) and isinstance(s.targets[0], ast.Tuple)):
            if isinstance(s, ast.Try):
                need(len(s.body) == 1 and not s.orelse and not s.finalbody
                     and all(isinstance(h.body[-1], ast.Raise) and h.body[-1].exc is None
                             and all(is_logging(x) for x in h.body[:-1]) for h in s.handlers), s,
                     "expected try: <one statement> with logging + re-raising handlers")
                s = s.body[0]
            need(call_text is None, s, "second eigenspectrum call")
            t = single_target(s)
            need(isinstance(t, ast.Tuple) and len(t.elts) == 2 and all(isinstance(x, ast.Name) for x in t.elts), s,
                 "expected a, b = eigenspectrum(...)")
            need(isinstance(s.value, ast.Call) and dotted(s.value.func) == "eigenspectrum", s, "expected a call of eigenspectrum")
            args = bind(s.value, eig_sig, cx, "eigenspectrum")
            call_text = ch.finish("eigenspectrum %s" % " ".join(args))
            pair = [x.id for x in t.elts]
        elif isinstance(s, ast.Assign):
            need(call_text is not None and formula is None, s, "unexpected assignment")
            t = single_target(s)
            need(isinstance(t, ast.Name), s, "expected name = formula")
            rc = Ctx({"lag_time": "Z", pair[0]: "RV"}, "real")       # the vectors (pair[1]) are not available as reals
            f, _ = X(s.value, rc, "RV")
            formula = (t.id, f)
        elif isinstance(s, ast.Return):
            need(formula is not None and isinstance(s.value, ast.Name) and s.value.id == formula[0], s,
                 "expected return <formula name>")
        else:
            reject(s, "unsupported statement in calc_imp_times")
    need(call_text is not None and formula is not None and isinstance(tail[-1], ast.Return), fn, "calc_imp_times: incomplete tail")
    g1 = ("Definition gen_imp_eig_call {Mx V} (eigenspectrum : Mx -> option Z -> bool -> Z -> Q -> V) (T : Mx) (n_times : Z) : V :=\n%s."
          % call_text)
    g2 = ("Definition gen_imp_formula (lag_time : Z) (%s : list R) : list R :=\n  %s." % (pair[0], formula[1]))
    return g1, g2


def tr_implied(fn, calc_fn):
    sig = signature(fn, IMPL_SIG)
    csig = signature(calc_fn, CALC_SIG)
    b = strip_doc(fn.body)
    cx = Ctx({n: ty for n, ty, _ in sig}, "imp")
    ch = Chain()
    acc = None
    done = None
    for s in b:
        need(done is None, s, "statement after return")
        if isinstance(s, ast.If) and U(s.test).endswith(" is None"):
            v = U(s.test)[:-8]
            need(cx.env.get(v) == "OZ" and len(s.body) == 1 and not s.orelse and isinstance(s.body[0], ast.Assign)
                 and U(s.body[0].targets[0]) == v, s, "expected `if x is None: x = e` for an optional int")
            inner = Ctx({k: t for k, t in cx.env.items() if k != v}, "imp")
            d, _ = X(s.body[0].value, inner, "Z")
            ch.let(v, "match %s with None => %s | Some %s => %s end" % (v, d, v, v))
            cx.env[v] = "Z"
        elif isinstance(s, ast.If):
            st_if_assign(s, cx, ch)
        elif isinstance(s, ast.Assign) and isinstance(s.value, ast.List) and not s.value.elts:
            t = single_target(s)
            need(isinstance(t, ast.Name) and acc is None, s, "one accumulator list")
            acc = t.id
        elif isinstance(s, ast.For):
            need(acc is not None and isinstance(s.target, ast.Name) and isinstance(s.iter, ast.Name)
                 and cx.env.get(s.iter.id) == "LZ" and not s.orelse, s, "expected for t in lag_times")
            lc = Ctx(cx.env, "imp")
            lc.env[s.target.id] = "Z"
            body = s.body
            callnode = None
            if len(body) == 2 and isinstance(body[0], ast.Assign) and isinstance(body[0].targets[0], ast.Name):
                tmp = body[0].targets[0].id
                callnode = body[0].value
                need(U(body[1]) == "%s.append(%s)" % (acc, tmp), body[1], "expected %s.append(%s)" % (acc, tmp))
            elif len(body) == 1 and isinstance(body[0], ast.Expr) and isinstance(body[0].value, ast.Call) \
                    and U(body[0].value.func) == acc + ".append" and len(body[0].value.args) == 1:
                callnode = body[0].value.args[0]
            need(isinstance(callnode, ast.Call) and dotted(callnode.func) == "calc_imp_times", s,
                 "loop body must append one calc_imp_times(...) result")
            args = bind(callnode, csig, lc, "calc_imp_times")
            loop = "map (fun %s => calc_imp_times %s) %s" % (s.target.id, " ".join(args), s.iter.id)
            del cx.env[s.iter.id]
        elif isinstance(s, ast.Return):
            need(acc is not None and U(s.value) in ("np.array(%s)" % acc, acc), s, "expected return np.array(<list>)")
            done = ch.finish(loop)
        else:
            st_assign(s, cx, ch)
    need(done is not None, fn, "no return")
    g = ("Definition gen_implied_timescales {A Mth R} (assigns_max : A -> Z)\n"
         "    (calc_imp_times : %s -> R)\n"
         "    (assigns : A) (lag_times : list Z) (method : Mth) (n_times : option Z) (sliding_window trim : bool) : list R :=\n%s."
         % (" -> ".join(COQ_TY[ty] for _, ty, _ in csig), done))
    dfl = ["Definition imp_default_%s : %s := %s." % (n, COQ_TY[ty], d) for n, ty, d in sig if d is not None]
    return [g] + dfl


# ============================================================================ synthetic_ensemble
ENS_SIG = [("T", "MAT"), ("init_pops", "V"), ("n_steps", "Z"), ("observable_per_state", "OV")]


def assigned_names(stmts):
    out = []
    for s in stmts:
        if isinstance(s, ast.Assign):
            t = single_target(s)
            need(isinstance(t, ast.Name), s, "assignment target must be a name")
            if t.id not in out:
                out.append(t.id)
        elif isinstance(s, ast.Expr) and isinstance(s.value, ast.Call) and isinstance(s.value.func, ast.Attribute) \
                and s.value.func.attr == "append" and isinstance(s.value.func.value, ast.Name):
            if s.value.func.value.id not in out:
                out.append(s.value.func.value.id)
        else:
            reject(s, "unsupported statement in a loop body")
    return out


def ens_block(stmts, cx, ch):
    for s in stmts:
        if isinstance(s, ast.Assign):
            st_assign(s, cx, ch)
        elif isinstance(s, ast.Expr) and isinstance(s.value, ast.Call) and isinstance(s.value.func, ast.Attribute) \
                and s.value.func.attr == "append":
            c = s.value
            need(isinstance(c.func.value, ast.Name) and len(c.args) == 1 and not c.keywords, s, "expected l.append(x)")
            l = c.func.value.id
            need(cx.env.get(l) in ("LS", "LV"), s, "append to a %s" % cx.env.get(l))
            t, ty = X(c.args[0], cx)
            ch.flush(cx)
            need((cx.env[l], ty) in (("LS", "S"), ("LV", "V")), s, "append of a %s to a %s" % (ty, cx.env[l]))
            ch.let(l, "append %s %s" % (l, t))
        elif isinstance(s, ast.For):
            it = s.iter
            need(isinstance(s.target, ast.Name) and isinstance(it, ast.Call) and dotted(it.func) == "range"
                 and len(it.args) == 1 and not it.keywords and not s.orelse, s, "expected for i in range(n)")
            n, _ = X(it.args[0], cx, "Z")
            used = {x.id for b in s.body for x in ast.walk(b) if isinstance(x, ast.Name)}
            need(s.target.id not in used, s, "the loop index is used in the body")
            st = assigned_names(s.body)
            need(st and all(v in cx.env for v in st), s, "loop assigns a name unbound before the loop")
            pat = "'(%s)" % ", ".join(st) if len(st) > 1 else st[0]
            tup = "(%s)" % ", ".join(st)
            lc = Ctx(cx.env, cx.mode)
            lch = Chain()
            ens_block(s.body, lc, lch)
            need(all(lc.env[v] == cx.env[v] for v in st), s, "loop changes the type of a variable")
            body = lch.finish("Some %s" % tup, indent="      ")
            ch.bind("(for_range %s (fun %s =>\n%s) %s)" % (n, pat, body, tup), pat)
        else:
            reject(s, "unsupported statement in synthetic_ensemble")


def tr_ensemble(fn):
    sig = signature(fn, ENS_SIG)
    b = strip_doc(fn.body)
    k = [i for i, s in enumerate(b) if isinstance(s, ast.If) and "observable_per_state" in U(s.test)]
    need(len(k) == 1, fn, "expected one test of observable_per_state")
    iff = b[k[0]]
    t = U(iff.test)
    need(t in ("observable_per_state is not None", "observable_per_state is None") and iff.orelse, iff,
         "expected `if observable_per_state is not None: ... else: ...`")
    with_obs, without = (iff.body, iff.orelse) if "not" in t else (iff.orelse, iff.body)
    out = []
    for name, branch, has_obs in (("gen_ensemble", without, False), ("gen_ensemble_obs", with_obs, True)):
        env = {"T": "MAT", "init_pops": "V", "n_steps": "Z"}
        if has_obs:
            env["observable_per_state"] = "V"
        cx = Ctx(env, "ens")
        ch = Chain()
        stmts = b[:k[0]] + branch + b[k[0] + 1:]
        ret = None
        for s in stmts:
            need(ret is None, s, "statement after return")
            if isinstance(s, ast.If):
                # T_op = aslinearoperator(T.tocsr()) if issparse(T) else aslinearoperator(T)
                need(len(s.body) == 1 and len(s.orelse) == 1 and isinstance(s.body[0], ast.Assign)
                     and isinstance(s.orelse[0], ast.Assign) and U(s.body[0].targets[0]) == U(s.orelse[0].targets[0])
                     and isinstance(s.body[0].targets[0], ast.Name), s, "expected if c: x = a else: x = b")
                c, _ = X(s.test, cx, "B")
                a, ta = X(s.body[0].value, cx)
                bb, tb = X(s.orelse[0].value, cx)
                need(ta == tb and not cx.pre, s, "arms of different type")
                v = s.body[0].targets[0].id
                need(v not in cx.env, s, "rebinding %s" % v)
                cx.env[v] = ta
                ch.let(v, "if %s then %s else %s" % (c, a, bb))
            elif isinstance(s, ast.Return):
                need(isinstance(s.value, ast.Tuple) and len(s.value.elts) == 2, s, "expected return p, observations")
                a, _ = X(s.value.elts[0], cx, "V")
                o, to = X(s.value.elts[1], cx, "LS" if has_obs else "LV")
                need(not cx.pre, s, "failing operation in return")
                ret = ch.finish("Some (%s, %s)" % (a, o))
            else:
                ens_block([s], cx, ch)
        need(ret is not None, fn, "no return")
        out.append("Definition %s (T_sparse : bool) (T : Builders.mat) (init_pops : list Q) (n_steps : Z)%s\n"
                   "  : option (list Q * %s) :=\n%s." % (
                       name, " (observable_per_state : list Q)" if has_obs else "",
                       "list Q" if has_obs else "list (list Q)", ret))
    need(sig[3][2] == "None", fn, "observable_per_state must default to None")
    return out


# ============================================================================ MSM.save / MSM.load
ATTRS = ("mapping_", "tcounts_", "tprobs_", "eq_probs_", "config")


def cstr(s):
    need(isinstance(s, str) and all(32 <= ord(ch) < 127 and ch != '"' for ch in s), None, "unsupported string %r" % (s,))
    return '"%s"%%string' % s


def tr_save(fn):
    need([a.arg for a in fn.args.args] == ["self", "path", "force", "zipfile"] and fn.args.kwarg is not None
         and fn.args.kwarg.arg == "filenames", fn, "unexpected signature of save")
    b = strip_doc(fn.body)
    need(len(b) == 3, fn, "save: expected fname_dict = {...}; fname_dict.update(filenames); with ...")
    d = b[0]
    need(isinstance(d, ast.Assign) and U(d.targets[0]) == "fname_dict" and isinstance(d.value, ast.Dict), d,
         "expected fname_dict = {...}")
    names = []
    for k, v in zip(d.value.keys, d.value.values):
        need(isinstance(k, ast.Constant) and isinstance(k.value, str) and isinstance(v, ast.Constant)
             and isinstance(v.value, str) and k.value not in [x for x, _ in names], d, "fname_dict: distinct literal strings")
        names.append((k.value, v.value))
    need(U(b[1]) == "fname_dict.update(filenames)", b[1], "expected fname_dict.update(filenames)")
    w = b[2]
    need(isinstance(w, ast.With) and len(w.items) == 1 and U(w.items[0].optional_vars) == "tempdir"
         and U(w.items[0].context_expr).startswith("tempfile.TemporaryDirectory("), w, "expected with TemporaryDirectory as tempdir")
    rows = []
    manifest = None
    helper = False
    for s in w.body:
        if isinstance(s, ast.FunctionDef):
            need(s.name == "tmp_fname" and [a.arg for a in s.args.args] == ["prop"] and len(s.body) == 1
                 and U(s.body[0]) == "return os.path.join(tempdir, fname_dict[prop])", s, "unexpected tmp_fname helper")
            helper = True
        elif isinstance(s, ast.With):
            need(len(s.items) == 1 and U(s.items[0].optional_vars) == "f" and len(s.body) == 1
                 and isinstance(s.items[0].context_expr, ast.Call) and dotted(s.items[0].context_expr.func) == "open"
                 and len(s.items[0].context_expr.args) == 2 and not s.items[0].context_expr.keywords, s,
                 "expected with open(<name>, <mode>) as f: <one writer statement>")
            target, mode = s.items[0].context_expr.args
            need(isinstance(mode, ast.Constant) and mode.value in ("w", "wb"), mode, "mode must be 'w' or 'wb'")
            cm = "TextMode" if mode.value == "w" else "BinaryMode"
            st = s.body[0]
            need(isinstance(st, ast.Expr) and isinstance(st.value, ast.Call), st, "expected a writer call")
            c = st.value
            if U(target).startswith("os.path.join(tempdir, "):
                need(isinstance(target, ast.Call) and len(target.args) == 2 and isinstance(target.args[1], ast.Constant)
                     and isinstance(target.args[1].value, str) and manifest is None, target, "manifest file name")
                need(dotted(c.func) == "json.dump" and len(c.args) == 2 and U(c.args[0]) == "fname_dict" and U(c.args[1]) == "f"
                     and mode.value == "w", c, "expected json.dump(fname_dict, f, ...)")
                manifest = target.args[1].value
                continue
            need(helper and isinstance(target, ast.Call) and dotted(target.func) == "tmp_fname" and len(target.args) == 1
                 and isinstance(target.args[0], ast.Constant) and isinstance(target.args[0].value, str), target,
                 "expected open(tmp_fname('<key>'), ...)")
            key = target.args[0].value
            need(key in [k for k, _ in names], target, "key %r is not in fname_dict" % key)
            fname = dotted(c.func)

            def self_attr(e):
                need(isinstance(e, ast.Attribute) and isinstance(e.value, ast.Name) and e.value.id == "self"
                     and e.attr in ATTRS, e, "expected self.<attribute>")
                return e.attr
            if fname == "mmwrite":
                need(len(c.args) == 2 and U(c.args[0]) == "f", c, "mmwrite(f, x[, precision=])")
                attr = self_attr(c.args[1])
                prec = "None"
                for kw in c.keywords:
                    need(kw.arg == "precision" and isinstance(kw.value, ast.Constant) and isinstance(kw.value.value, int)
                         and not isinstance(kw.value.value, bool), c, "mmwrite: only precision=<int>")
                    prec = "(Some (%d)%%Z)" % kw.value.value
                writer = "(W_mmwrite %s)" % prec
            elif fname in ("np.savetxt", "numpy.savetxt"):
                need(len(c.args) == 2 and U(c.args[0]) == "f" and not c.keywords, c, "np.savetxt(f, x) with default format")
                a = c.args[1]
                if isinstance(a, ast.Call) and dotted(a.func) in ("np.array", "np.asarray") and len(a.args) == 1 and not a.keywords:
                    a = a.args[0]
                attr = self_attr(a)
                writer = "W_savetxt"
            elif fname == "pickle.dump":
                need(len(c.args) == 2 and U(c.args[1]) == "f" and not c.keywords, c, "pickle.dump(x, f)")
                attr = self_attr(c.args[0])
                writer = "W_pickle"
            elif isinstance(c.func, ast.Attribute) and c.func.attr == "write" and len(c.args) == 1 and U(c.args[0]) == "f" \
                    and not c.keywords:
                attr = self_attr(c.func.value)
                need(attr == "mapping_", c, "only the mapping has a .write method")
                writer = "W_mapping_csv"
            else:
                reject(c, "unknown writer %s" % fname)
            rows.append((key, attr, writer, cm))
        elif isinstance(s, ast.If):
            t = U(s)
            need(t in ("if force and os.path.isdir(path):\n    shutil.rmtree(path)",
                       "if zipfile:\n    raise NotImplementedError(\"MSMs don't do zip archives yet.\")\nelse:\n    shutil.copytree(tempdir, path)"),
                 s, "unexpected statement in save")
        else:
            reject(s, "unexpected statement in save")
    need(manifest is not None, fn, "no manifest written")
    return names, rows, manifest


def tr_load(fn):
    args = [a.arg for a in fn.args.args]
    need(args == ["cls", "path", "manifest"] and len(fn.args.defaults) == 1 and isinstance(fn.args.defaults[0], ast.Constant)
         and isinstance(fn.args.defaults[0].value, str), fn, "unexpected signature of load")
    manifest = fn.args.defaults[0].value
    rows = []
    seen_manifest = seen_join = made = False
    for s in strip_doc(fn.body):
        t = U(s)
        if t.startswith("if not os.path.isdir(path):"):
            continue
        if t == "with open(os.path.join(path, manifest)) as f:\n    fname_dict = json.load(f)":
            seen_manifest = True
        elif t == "fname_dict = {k: os.path.join(path, v) for k, v in fname_dict.items()}":
            need(seen_manifest, s, "manifest must be read first")
            seen_join = True
        elif isinstance(s, ast.With):
            need(seen_join and len(s.items) == 1 and len(s.body) == 1 and U(s.items[0].optional_vars) == "f"
                 and U(s.body[0]) == "config = pickle.load(f)", s, "expected with open(fname_dict[<key>], 'rb') as f: config = pickle.load(f)")
            c = s.items[0].context_expr
            need(isinstance(c, ast.Call) and dotted(c.func) == "open" and len(c.args) == 2 and U(c.args[1]) == "'rb'"
                 and isinstance(c.args[0], ast.Subscript) and U(c.args[0].value) == "fname_dict"
                 and isinstance(c.args[0].slice, ast.Constant), c, "expected open(fname_dict['<key>'], 'rb')")
            rows.append(("config", "R_pickle", c.args[0].slice.value))
        elif t == "msm = MSM(**config)":
            need(any(r[0] == "config" for r in rows), s, "config must be read before MSM(**config)")
            made = True
        elif isinstance(s, ast.Assign):
            tg = single_target(s)
            need(made and isinstance(tg, ast.Attribute) and U(tg.value) == "msm" and tg.attr in ATTRS, s,
                 "expected msm.<attribute> = <reader>(fname_dict['<key>'])")
            c = s.value
            need(isinstance(c, ast.Call) and len(c.args) == 1 and isinstance(c.args[0], ast.Subscript)
                 and U(c.args[0].value) == "fname_dict" and isinstance(c.args[0].slice, ast.Constant)
                 and isinstance(c.args[0].slice.value, str), s, "expected <reader>(fname_dict['<key>'])")
            key = c.args[0].slice.value
            fname = dotted(c.func)
            if fname == "mmread":
                need(not c.keywords, c, "mmread(fname)")
                reader = "R_mmread"
            elif fname == "TrimMapping.load":
                need(not c.keywords, c, "TrimMapping.load(fname)")
                reader = "R_mapping_csv"
            elif fname in ("np.loadtxt", "numpy.loadtxt"):
                nd = 0
                for kw in c.keywords:
                    need(kw.arg == "ndmin" and isinstance(kw.value, ast.Constant) and isinstance(kw.value.value, int), c,
                         "np.loadtxt: only ndmin=<int>")
                    nd = kw.value.value
                reader = "(R_loadtxt (%d)%%Z)" % nd
            else:
                reject(c, "unknown reader %s" % fname)
            need(tg.attr not in [r[0] for r in rows], s, "attribute %s read twice" % tg.attr)
            rows.append((tg.attr, reader, key))
        elif t == "return msm":
            pass
        else:
            reject(s, "unexpected statement in load")
    need(made, fn, "load never builds the estimator")
    return rows, manifest


# ============================================================================ driver
def translate(repo):
    tm, _ = parse_file(repo, REL_TM)
    ts, _ = parse_file(repo, REL_TS)
    sd, _ = parse_file(repo, REL_SD)
    mm, _ = parse_file(repo, REL_MSM)
    eig_fn = find_func(tm, "eigenspectrum", REL_TM)
    eig_sig, eig_defs = tr_eigenspectrum(eig_fn)
    calc_fn = find_func(ts, "calc_imp_times", REL_TS)
    g_call, g_formula = tr_calc_tail(calc_fn, eig_sig)
    impl = tr_implied(find_func(ts, "implied_timescales", REL_TS), calc_fn)
    ens = tr_ensemble(find_func(sd, "synthetic_ensemble", REL_SD))
    names, srows, sman = tr_save(find_func(mm, "save", REL_MSM, cls="MSM"))
    lrows, lman = tr_load(find_func(mm, "load", REL_MSM, cls="MSM"))

    spec = ["(* GENERATED by translator/tr_spectrum.py from %s (eigenspectrum), %s (calc_imp_times, implied_timescales)," % (REL_TM, REL_TS),
            "   %s (synthetic_ensemble) -- do not edit *)" % REL_SD,
            "From Coq Require Import List ZArith QArith Bool.",
            "From EV Require Import Msm MsmSpecBase.", "From EV Require Builders.", "Import ListNotations.", "",
            "(* ---- eigenspectrum(T, n_eigs, left, maxiter, tol) *)"]
    spec += eig_defs
    spec += ["", "(* ---- calc_imp_times: n_times and the eigenspectrum call, bound against eigenspectrum(%s) *)"
             % ", ".join(n for n, _, _ in eig_sig), g_call, "",
             "(* ---- implied_timescales; calc_imp_times(%s) *)" % ", ".join(n for n, _ in CALC_SIG)]
    spec += impl
    spec += ["", "(* ---- synthetic_ensemble, one definition per branch of `observable_per_state is not None`;",
             "   T_sparse = scipy.sparse.issparse(T) *)"]
    spec += ens
    aux = ["(* GENERATED by translator/tr_spectrum.py from %s (calc_imp_times) and %s (MSM.save, MSM.load)" % (REL_TS, REL_MSM),
           "   -- do not edit *)",
           "From Coq Require Import String.", "From Coq Require Import List ZArith Reals.",
           "From EV Require Import MsmAuxBase.", "Import ListNotations.", "",
           "(* ---- the formula of calc_imp_times over R *)", g_formula, "",
           "(* ---- MSM.save: fname_dict, one row per `with open(tmp_fname(key), mode) as f: writer` *)",
           "Definition gen_default_fnames : list (string * string) :=\n  [%s]." % ";\n   ".join(
               "(%s, %s)" % (cstr(k), cstr(v)) for k, v in names),
           "Definition gen_save_table : list save_row :=\n  [%s]." % ";\n   ".join(
               "{| sv_key := %s; sv_attr := A_%s; sv_writer := %s; sv_mode := %s |}" % (cstr(k), a, w, m) for k, a, w, m in srows),
           "Definition gen_manifest_save : string := %s." % cstr(sman),
           "", "(* ---- MSM.load: one row per attribute read *)",
           "Definition gen_load_table : list load_row :=\n  [%s]." % ";\n   ".join(
               "{| ld_attr := A_%s; ld_reader := %s; ld_key := %s |}" % (a, r, cstr(k)) for a, r, k in lrows),
           "Definition gen_manifest_load : string := %s." % cstr(lman)]
    return {"Gen/MsmSpecGen.v": "\n".join(spec) + "\n", "Gen/MsmAuxGen.v": "\n".join(aux) + "\n"}


if __name__ == "__main__":
    import sys
    out = translate(sys.argv[1] if len(sys.argv) > 1 else "/repo")
    for k, v in out.items():
        print("(* ===== %s ===== *)" % k)
        print(v)
