"""enspara/cards/disorder.py:transitions  ->  Gen/DisorderGen.v   (vocabulary: Base/DisorderBase.v)

Accepted shape (anything else is rejected):
    def transitions(assignments):
        [docstring]
        if len(assignments.shape) <cmp> <int>:
            <assignments>
        else:
            <assignments>
        return <name>
Each branch is a straight line of `name = expr` / `a, b = expr` statements over the typed
expression language below.  A branch is translated once with `assignments` a 1-D array and, if
that is rejected, once with `assignments` a 2-D array / RaggedArray (list of rows); the type of the
returned name decides whether it becomes gen_transitions1 (index list) or gen_transitions2
(RaggedArray).  Exactly one branch of each kind is required.

Types: L 1-D ints, R rows of ints, ML/MR masks, NL index list, N count, TUP1 / PAIR results of
where, RA RaggedArray of indices.
    x[lo:hi:st]            L  -> L    slice_list          (int literal bounds, step <> 0)
    x[:, lo:hi:st]         R  -> R    slice_rows          (first index must be the bare `:`)
    x - y                  L,L -> L   sub_list  | R,R -> R  sub_rows        (may fail: option)
    x <cmp> k              L -> ML  mask_of | R -> MR  mask_rows  (cmp in != == < <= > >=, k int literal)
    np.where(m)|ra.where(m)  ML -> TUP1 ; ra.where(m) MR -> PAIR (np.where cannot take a RaggedArray mask);
         TUP1[0] -> NL  where1 ; PAIR[0|1] -> NL fst/snd where2
    a, b = <PAIR>          binds a := fst, b := snd
    np.bincount(x, minlength=n)   NL -> NL  bincount  (minlength optional -> 0)
         n: int literal >= 0 | v.shape[0] | len(v)   (v any array-typed local)
    ra.RaggedArray(x, lengths=y)  NL,NL -> RA  ragged  (may fail: option)
"""
import ast
from pyast import parse_file, find_func, reject, strip_doc, TranslatorReject

REL = "enspara/cards/disorder.py"
FUNC = "transitions"

COQ_TY = {"L": "list Z", "R": "list (list Z)", "ML": "list bool", "MR": "list (list bool)",
          "NL": "list nat", "N": "nat", "RA": "list (list nat)"}
RESERVED = {"np", "ra", "len"}


def _int(e):
    """int literal, possibly signed; None if e is not one"""
    if isinstance(e, ast.Constant) and type(e.value) is int:
        return e.value
    if isinstance(e, ast.UnaryOp) and isinstance(e.op, ast.USub) and isinstance(e.operand, ast.Constant) \
            and type(e.operand.value) is int:
        return -e.operand.value
    return None


def _optz(e, what):
    if e is None:
        return "None"
    k = _int(e)
    if k is None:
        reject(e, "slice %s must be an integer literal" % what)
    return "(Some (%d)%%Z)" % k


def _slice(s):
    if not isinstance(s, ast.Slice):
        reject(s, "expected a slice")
    if s.step is not None and _int(s.step) == 0:
        reject(s, "slice step 0")
    return "%s %s %s" % (_optz(s.lower, "start"), _optz(s.upper, "stop"), _optz(s.step, "step"))


def _is_full_slice(s):
    return isinstance(s, ast.Slice) and s.lower is None and s.upper is None and s.step is None


CMP = {ast.NotEq: "negb (Z.eqb x (%d)%%Z)", ast.Eq: "Z.eqb x (%d)%%Z", ast.Lt: "Z.ltb x (%d)%%Z", ast.LtE: "Z.leb x (%d)%%Z",
       ast.Gt: "Z.ltb (%d)%%Z x", ast.GtE: "Z.leb (%d)%%Z x"}


def _call_name(f):
    """np.where -> ('np', 'where'); anything else rejected"""
    if isinstance(f, ast.Attribute) and isinstance(f.value, ast.Name):
        return (f.value.id, f.attr)
    if isinstance(f, ast.Name):
        return (None, f.id)
    reject(f, "unsupported callee")


class Branch:
    """straight-line translation of one branch; fallible operations are bound with obind in
    evaluation order (inner first, left to right, as Python evaluates them)"""

    def __init__(self, param, pty):
        self.env = {param: ("v_" + param, pty)}
        self.lines = []      # ("obind"|"let"|"letp", binder text, rhs)
        self.ntmp = 0

    def fallible(self, text, ty):
        self.ntmp += 1
        t = "t%d_" % self.ntmp
        self.lines.append(("obind", t, text))
        return (t, ty)

    def nat(self, e):
        k = _int(e)
        if k is not None:
            if k < 0:
                reject(e, "negative minlength")      # np.bincount raises
            return "%d" % k
        v = None
        if isinstance(e, ast.Subscript) and isinstance(e.value, ast.Attribute) and e.value.attr == "shape" \
                and isinstance(e.value.value, ast.Name) and _int(e.slice) == 0:
            v = e.value.value
        elif isinstance(e, ast.Call) and _call_name(e.func) == (None, "len") and len(e.args) == 1 and not e.keywords \
                and isinstance(e.args[0], ast.Name):
            v = e.args[0]
        if v is None:
            reject(e, "unsupported count expression (int literal, v.shape[0], len(v))")
        t, ty = self.expr(v)
        if ty not in ("L", "R", "ML", "MR", "NL"):
            reject(e, "shape[0] / len of a %s" % ty)
        return "(length %s)" % t

    def expr(self, e):
        if isinstance(e, ast.Name):
            if e.id not in self.env:
                reject(e, "unknown name %s" % e.id)
            return self.env[e.id]
        if isinstance(e, ast.Subscript):
            v, ty = self.expr(e.value)
            if ty == "L":
                return ("(slice_list %s %s)" % (v, _slice(e.slice)), "L")
            if ty == "R":
                s = e.slice
                if not (isinstance(s, ast.Tuple) and len(s.elts) == 2 and _is_full_slice(s.elts[0])):
                    reject(e, "2-D index must be [:, slice]")
                return ("(slice_rows %s %s)" % (v, _slice(s.elts[1])), "R")
            if ty == "TUP1":
                if _int(e.slice) != 0:
                    reject(e, "np.where on a 1-D mask has one component")
                return (v, "NL")
            if ty == "PAIR":
                k = _int(e.slice)
                if k not in (0, 1):
                    reject(e, "where on a 2-D mask has two components")
                return ("(%s %s)" % ("fst" if k == 0 else "snd", v), "NL")
            reject(e, "cannot index a %s" % ty)
        if isinstance(e, ast.BinOp):
            if not isinstance(e.op, ast.Sub):
                reject(e, "unsupported arithmetic operator")
            a, ta = self.expr(e.left)
            b, tb = self.expr(e.right)
            if ta == tb == "L":
                return self.fallible("sub_list %s %s" % (a, b), "L")
            if ta == tb == "R":
                return self.fallible("sub_rows %s %s" % (a, b), "R")
            reject(e, "cannot subtract %s and %s" % (ta, tb))
        if isinstance(e, ast.Compare):
            if len(e.ops) != 1 or type(e.ops[0]) not in CMP:
                reject(e, "unsupported comparison")
            a, ta = self.expr(e.left)
            k = _int(e.comparators[0])
            if k is None:
                reject(e, "comparison constant must be an integer literal")
            test = "(fun x => %s)" % (CMP[type(e.ops[0])] % k)
            if ta == "L":
                return ("(mask_of %s %s)" % (test, a), "ML")
            if ta == "R":
                return ("(mask_rows %s %s)" % (test, a), "MR")
            reject(e, "cannot compare a %s" % ta)
        if isinstance(e, ast.Call):
            name = _call_name(e.func)
            kw = {k.arg: k.value for k in e.keywords}
            if None in kw or len(kw) != len(e.keywords) or any(isinstance(a, ast.Starred) for a in e.args):
                reject(e, "unsupported call form")
            if name in (("np", "where"), ("ra", "where")):
                if len(e.args) != 1 or kw:
                    reject(e, "where takes the mask only")
                m, tm = self.expr(e.args[0])
                if tm == "ML":
                    return ("(where1 %s)" % m, "TUP1")
                if tm == "MR":
                    # rows may be ragged: only ra.where handles a RaggedArray mask
                    if name != ("ra", "where"):
                        reject(e, "np.where on a 2-D / ragged mask (use ra.where)")
                    return ("(where2 %s)" % m, "PAIR")
                reject(e, "where on a %s" % tm)
            if name == ("np", "bincount"):
                if len(e.args) != 1 or set(kw) - {"minlength"}:
                    reject(e, "expected np.bincount(x[, minlength=n])")
                x, tx = self.expr(e.args[0])
                if tx != "NL":
                    reject(e, "bincount of a %s" % tx)
                n = self.nat(kw["minlength"]) if "minlength" in kw else "0"
                return ("(bincount %s %s)" % (x, n), "NL")
            if name == ("ra", "RaggedArray"):
                if len(e.args) != 1 or set(kw) != {"lengths"}:
                    reject(e, "expected ra.RaggedArray(flat, lengths=ls)")
                x, tx = self.expr(e.args[0])
                y, ty = self.expr(kw["lengths"])
                if tx != "NL" or ty != "NL":
                    reject(e, "RaggedArray(%s, lengths=%s)" % (tx, ty))
                return self.fallible("ragged %s %s" % (x, y), "RA")
            reject(e, "unsupported call")
        reject(e, "unsupported expression")

    def stmt(self, s):
        if not (isinstance(s, ast.Assign) and len(s.targets) == 1):
            reject(s, "expected a simple assignment")
        t = s.targets[0]
        v, ty = self.expr(s.value)
        if isinstance(t, ast.Name):
            if t.id in RESERVED:
                reject(s, "assignment to %s" % t.id)
            if ty not in COQ_TY:
                reject(s, "a %s cannot be stored" % ty)
            self.lines.append(("let", "v_" + t.id, v))
            self.env[t.id] = ("v_" + t.id, ty)
        elif isinstance(t, ast.Tuple) and len(t.elts) == 2 and all(isinstance(x, ast.Name) for x in t.elts):
            if ty != "PAIR":
                reject(s, "cannot unpack a %s into two names" % ty)
            a, b = t.elts[0].id, t.elts[1].id
            if a == b or a in RESERVED or b in RESERVED:
                reject(s, "bad unpacking targets")
            self.lines.append(("letp", "'(v_%s, v_%s)" % (a, b), v))
            self.env[a] = ("v_" + a, "NL")
            self.env[b] = ("v_" + b, "NL")
        else:
            reject(s, "unsupported assignment target")

    def body(self, ret):
        out = []
        for kind, binder, rhs in self.lines:
            if kind == "obind":
                out.append("  obind (%s) (fun %s =>" % (rhs, binder))
            else:
                out.append("  let %s := %s in" % (binder, rhs))
        out.append("  Some %s%s" % (ret, ")" * sum(1 for l in self.lines if l[0] == "obind")))
        return "\n".join(out)


def _branch(stmts, param, retname, where):
    """-> (kind '1'|'2', Gallina body)"""
    if not stmts:
        reject(where, "empty branch")
    errs = []
    for pty, kind, rty in (("L", "1", "NL"), ("R", "2", "RA")):
        br = Branch(param, pty)
        try:
            for s in stmts:
                br.stmt(s)
            if retname not in br.env:
                reject(where, "returned name %s is not assigned in this branch" % retname)
            v, ty = br.env[retname]
            if ty != rty:
                reject(where, "branch over a %s returns a %s, expected %s" % (pty, ty, rty))
            return kind, br.body(v)
        except TranslatorReject as ex:   # try the other rank
            errs.append("as %s-D: %s" % (kind, ex))
    reject(where, "branch not translatable (%s)" % "; ".join(errs))


def _check_module(tree):
    """np / ra must be the NumPy and enspara.ra modules and `transitions` must be defined once"""
    imports = {"np": 0, "ra": 0}
    for n in ast.walk(tree):
        if isinstance(n, ast.Import):
            for a in n.names:
                bound = a.asname or a.name.split(".")[0]
                if bound in imports:
                    if not (bound == "np" and a.name == "numpy"):
                        reject(n, "%s bound by an unexpected import" % bound)
                    imports[bound] += 1
        elif isinstance(n, ast.ImportFrom):
            for a in n.names:
                bound = a.asname or a.name
                if bound in imports or bound == FUNC or bound == "len":
                    if not (bound == "ra" and n.module == "enspara" and a.name == "ra" and n.level == 0):
                        reject(n, "%s bound by an unexpected import" % bound)
                    imports[bound] += 1
        elif isinstance(n, (ast.Assign, ast.AugAssign, ast.AnnAssign, ast.For, ast.With, ast.NamedExpr, ast.Global,
                            ast.Nonlocal, ast.Delete)):
            for m in ast.walk(n):
                if isinstance(m, ast.Name) and isinstance(m.ctx, (ast.Store, ast.Del)) and m.id in ("np", "ra", "len", FUNC):
                    reject(n, "%s is rebound" % m.id)
                if isinstance(n, (ast.Global, ast.Nonlocal)) and set(n.names) & {"np", "ra", "len", FUNC}:
                    reject(n, "global/nonlocal on a pinned name")
        elif isinstance(n, (ast.FunctionDef, ast.AsyncFunctionDef, ast.ClassDef, ast.Lambda)):
            if not isinstance(n, ast.Lambda) and n.name in ("np", "ra", "len"):
                reject(n, "%s is redefined" % n.name)
    if imports != {"np": 1, "ra": 1}:
        reject(tree, "expected exactly `import numpy as np` and `from enspara import ra` (%s)" % imports)
    defs = [n for n in ast.walk(tree) if isinstance(n, (ast.FunctionDef, ast.AsyncFunctionDef, ast.ClassDef)) and n.name == FUNC]
    if len(defs) != 1 or defs[0] not in tree.body:
        reject(tree, "expected exactly one module-level definition of %s" % FUNC)


def translate(repo):
    tree, _ = parse_file(repo, REL)
    _check_module(tree)
    fn = find_func(tree, FUNC, REL)
    a = fn.args
    if fn.decorator_list or [x.arg for x in a.args] != ["assignments"] or a.defaults or a.vararg or a.kwarg \
            or a.kwonlyargs or getattr(a, "posonlyargs", []):
        reject(fn, "unexpected signature / decorators")
    body = strip_doc(fn.body)
    if len(body) != 2 or not isinstance(body[0], ast.If) or not isinstance(body[1], ast.Return) \
            or not isinstance(body[1].value, ast.Name):
        reject(fn, "expected `if ...: ... else: ...` followed by `return <name>`")
    iff, ret = body[0], body[1].value.id
    t = iff.test
    ok = (isinstance(t, ast.Compare) and len(t.ops) == 1 and type(t.ops[0]) in CMP
          and isinstance(t.left, ast.Call) and _call_name(t.left.func) == (None, "len")
          and len(t.left.args) == 1 and not t.left.keywords
          and ast.unparse(t.left.args[0]) == "assignments.shape" and _int(t.comparators[0]) is not None)
    if not ok:
        reject(t, "expected the branch test `len(assignments.shape) <cmp> <int>`")
    test = CMP[type(t.ops[0])] % _int(t.comparators[0])
    if not iff.orelse:
        reject(iff, "missing else branch")
    k_then, b_then = _branch(iff.body, "assignments", ret, iff)
    k_else, b_else = _branch(iff.orelse, "assignments", ret, iff)
    if {k_then, k_else} != {"1", "2"}:
        reject(iff, "need one 1-D and one 2-D branch, got %s and %s" % (k_then, k_else))
    bodies = {k_then: b_then, k_else: b_else}
    disp = {"1": "on_1d gen_transitions1 a", "2": "on_2d gen_transitions2 a"}
    text = """(* GENERATED by translator/tr_disorder.py from %s:%s -- do not edit *)
From Coq Require Import List ZArith Bool.
From EV Require Import PySlice DisorderBase.
Import ListNotations.

(* the branch for 1-D input (the %s branch of the source) *)
Definition gen_transitions1 (v_assignments : list Z) : option (list nat) :=
%s.

(* the branch for 2-D / ragged input (the %s branch of the source) *)
Definition gen_transitions2 (v_assignments : list (list Z)) : option (list (list nat)) :=
%s.

(* `if len(assignments.shape) ...`, x = len(assignments.shape) *)
Definition gen_branch_test (x : Z) : bool := %s.

Definition gen_transitions (a : arr) : tt_result :=
  if gen_branch_test (ndim a) then %s else %s.
""" % (REL, FUNC, "then" if k_then == "1" else "else", bodies["1"], "then" if k_then == "2" else "else",
       bodies["2"], test, disp[k_then], disp[k_else])
    return {"Gen/DisorderGen.v": text}


if __name__ == "__main__":
    import sys
    for rel, txt in translate(sys.argv[1] if len(sys.argv) > 1 else "/repo").items():
        print("(* ---- %s *)" % rel)
        print(txt)
