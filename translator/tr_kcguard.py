"""enspara/cluster/kcenters.py:kcenters -> Gen/KcGuardGen.v

Translated pieces (everything else of kcenters is hand-modelled in Model/Cluster.v):
  * the normalisation chain of the stopping criteria (n_clusters / dist_cutoff None handling) and the
    up-front rejection `(n_clusters is np.inf) and (dist_cutoff == 0)`;
  * the test of the main `while` loop, as two comparison operators joined by and/or.
n_clusters is modelled as `option nat` (None = np.inf after normalisation); before normalisation the
argument is one of: absent (Python None) / np.inf / an int, encoded `NcNone | NcInf | NcInt k`.
"""
import ast
from pyast import parse_file, find_func, reject, strip_doc

REL = "enspara/cluster/kcenters.py"


def _is_none_test(e):
    """`x is None` / `x is not None` -> (name, positive?)"""
    if isinstance(e, ast.Compare) and len(e.ops) == 1 and isinstance(e.left, ast.Name) \
            and isinstance(e.comparators[0], ast.Constant) and e.comparators[0].value is None:
        if isinstance(e.ops[0], ast.Is):
            return e.left.id, True
        if isinstance(e.ops[0], ast.IsNot):
            return e.left.id, False
    return None


def _cond(e):
    """and-combination of `is None` tests on n_clusters / dist_cutoff -> Coq bool over (nc, dc)"""
    parts = e.values if isinstance(e, ast.BoolOp) and isinstance(e.op, ast.And) else [e]
    out = []
    for p in parts:
        t = _is_none_test(p)
        if t is None or t[0] not in ("n_clusters", "dist_cutoff"):
            reject(p, "unsupported test in the normalisation chain")
        var = "(nc_is_none nc)" if t[0] == "n_clusters" else "(dc_is_none dc)"
        out.append(var if t[1] else "(negb (%s))" % var)
    s = out[0]
    for o in out[1:]:
        s = "(andb %s %s)" % (s, o)
    return s


def _action(stmts):
    if len(stmts) == 1 and isinstance(stmts[0], ast.Raise):
        return "None"
    if len(stmts) == 1 and isinstance(stmts[0], ast.Assign):
        src = ast.unparse(stmts[0])
        if src == "n_clusters = np.inf":
            return "Some (NcInf, dc)"
        if src == "dist_cutoff = 0":
            return "Some (nc, DcVal (Qmake 0 1))"
    reject(stmts[0], "unsupported action in the normalisation chain")


CMP = {ast.Lt: "lt", ast.LtE: "le", ast.Gt: "gt", ast.GtE: "ge"}


def translate(repo):
    tree, _ = parse_file(repo, REL)
    fn = find_func(tree, "kcenters", REL)
    a = fn.args
    names = [x.arg for x in a.args]
    defaults = dict(zip(names[len(names) - len(a.defaults):], a.defaults))
    if ast.unparse(defaults.get("n_clusters", ast.Constant(value=0))) != "np.inf" or \
            ast.unparse(defaults.get("dist_cutoff", ast.Constant(value=1))) != "0":
        reject(fn, "unexpected defaults for n_clusters / dist_cutoff")
    body = strip_doc(fn.body)
    # --- up-front rejection
    first = body[0]
    if not (isinstance(first, ast.If) and len(first.body) == 1 and isinstance(first.body[0], ast.Raise) and not first.orelse
            and ast.unparse(first.test) == "n_clusters is np.inf and dist_cutoff == 0"):
        reject(first, "expected `if (n_clusters is np.inf) and (dist_cutoff == 0): raise`")
    # --- normalisation chain: the first if statement whose test mentions `is None`
    chain = None
    for s in body[1:]:
        if isinstance(s, ast.If) and "is None" in ast.unparse(s.test):
            chain = s
            break
    if chain is None:
        reject(fn, "normalisation chain not found")
    arms = []
    cur = chain
    while True:
        arms.append((_cond(cur.test), _action(cur.body)))
        if len(cur.orelse) == 1 and isinstance(cur.orelse[0], ast.If):
            cur = cur.orelse[0]
        elif not cur.orelse:
            break
        else:
            reject(cur, "unexpected else-branch in the normalisation chain")
    norm = "Some (nc, dc)"
    for cond, act in reversed(arms):
        norm = "if %s then %s else %s" % (cond, act, norm)
    # --- while test
    wh = [s for s in body if isinstance(s, ast.While)]
    if len(wh) != 1:
        reject(fn, "expected exactly one while loop")
    t = wh[0].test
    if not (isinstance(t, ast.BoolOp) and len(t.values) == 2):
        reject(t, "expected a conjunction/disjunction of two comparisons")
    conn = "andb" if isinstance(t.op, ast.And) else "orb"
    c1, c2 = t.values
    ok1 = (isinstance(c1, ast.Compare) and len(c1.ops) == 1 and ast.unparse(c1.left) == "len(ctr_inds)"
           and ast.unparse(c1.comparators[0]) == "n_clusters" and type(c1.ops[0]) in CMP)
    ok2 = (isinstance(c2, ast.Compare) and len(c2.ops) == 1 and ast.unparse(c2.left) == "maxdist"
           and ast.unparse(c2.comparators[0]) == "dist_cutoff" and type(c2.ops[0]) in CMP)
    if not (ok1 and ok2):
        reject(t, "unexpected while test")
    # --- the loop hands the centre objects themselves to the iteration (serial and MPI): the triangle-inequality
    #     shortcut measures centre-to-new-centre distances from them, and they grow with every accepted centre
    U = ast.unparse
    wb = [s for s in wh[0].body if not (isinstance(s, ast.Expr) and U(s).startswith("logger."))]
    call = U(ast.parse("(new_center, distances, assignments, center_inds) = iteration(traj, distance_method, distances, "
                       "assignments, ctr_inds, use_triangle_inequality=use_triangle_inequality, **kwargs)").body[0])
    if len(wb) < 2 or U(wb[0]) != call \
            or U(wb[1]) != "centers.append(new_center)":
        reject(wh[0], "expected the iteration call with **kwargs followed by centers.append(new_center)")
    pos = body.index(wh[0])
    pre = [U(s) for s in body[:pos]]
    sel = "if mpi_mode:\n    iteration = _kcenters_iteration_mpi\nelse:\n    iteration = _kcenters_iteration"
    if sel not in pre or pre[pre.index(sel) + 1:pre.index(sel) + 2] != ["kwargs = {'centers': centers}"]:
        reject(fn, "expected the iteration selection followed by kwargs = {'centers': centers}")
    for s in body[pre.index(sel) + 2:pos + 1]:
        if any(isinstance(t, ast.Name) and t.id in ("kwargs", "centers", "iteration") and isinstance(t.ctx, ast.Store) for t in ast.walk(s)):
            reject(s, "kwargs / centers / iteration rebound between the selection and the loop")
    text = """(* GENERATED by translator/tr_kcguard.py from %s:kcenters -- do not edit *)
From Coq Require Import List ZArith QArith Bool.
From EV Require Import KcGuardBase.

(* up-front rejection: (n_clusters is np.inf) and (dist_cutoff == 0) *)
Definition gen_reject (nc : ncarg) (dc : dcarg) : bool := andb (nc_is_inf nc) (dc_eq_zero dc).

(* normalisation of None stopping criteria; None = ImproperlyConfigured *)
Definition gen_normalise (nc : ncarg) (dc : dcarg) : option (ncarg * dcarg) :=
  %s.

(* while <len(ctr_inds) %s n_clusters> %s <maxdist %s dist_cutoff> *)
Definition gen_guard (n_ctrs : nat) (nclu : option nat) (maxdist cutoff : Q) : bool :=
  %s (cmp_count_%s n_ctrs nclu) (cmp_q_%s maxdist cutoff).
""" % (REL, norm, CMP[type(c1.ops[0])], "and" if conn == "andb" else "or", CMP[type(c2.ops[0])],
       conn, CMP[type(c1.ops[0])], CMP[type(c2.ops[0])])
    return {"Gen/KcGuardGen.v": text}
