"""enspara/geometry/libdist.pyx: the three nogil kernels _euclidean, _manhattan, _hamming, the fused
element types and the kernel each public wrapper calls; enspara/cluster/util.py: _get_distance_method
->  Gen/DistKernGen.v   (vocabulary: Base/DistKernBase.v over Base/PFor.v)

The .pyx is not Python.  Every kernel is cut out textually (decorators, `def` up to the next line at
column 0); its Cython-only parts are checked against fixed patterns and rewritten to plain Python,
the rest is parsed with `ast`.  Fail-closed: any line, statement or expression outside the tables
below raises TranslatorReject.

Cython-only text accepted
    @cython.boundscheck(False) / @cython.wraparound(False)                       decorators
    def _NAME(np.ndarray[<FUSED>, ndim=2] X, np.ndarray[<FUSED>, ndim=1] y,
              np.ndarray[np.float64_t, ndim=1] out):                              same FUSED for X and y
    ctypedef fused <FUSED>: np.<type>_t ...                                       -> gen_supports
    cdef long n_samples = len(out)        cdef long n_features = len(y)           the two loop bounds
    cdef long V, W = 0                                                            index variables
    cdef double D                                                                 double temporaries
    <double>ARR[...]  <double>NAME                                                casts (-> a_cast)
Statements accepted at the top level of a kernel, in this order
    the cdef lines above; `assert len(out) == X.shape[0]`, `assert n_features == X.shape[1]`
    (optional message); then one or more
        for V in prange(n_samples, nogil=True): <body>              -> one phase each, in order
    then `return out` or `return out.reshape(-1, 1)` (the wrappers ignore the returned value).
Body of a prange (V its variable)
    out[K] = E / out[K] += E / out[K] /= n_features                  K: a loop variable or a literal
    for W in range(n_features): <inner>                              (not nested further)
Inner block
    D = E              D a `cdef double` name, assigned once, before its uses, in this block only
    out[K] += E
    if ARR[..] != ARR[..]: <out[K] += E ...>                         no else
Expressions E (all of C type double): integer literal, D, out[K], <double>X[V, W], <double>y[W],
    E - E, E + E, E * E, fabs(E), sqrt(E).
prange must be the outermost loop, over n_samples, with exactly `nogil=True`; range must be the
inner loop, over n_features.  Consequently: a prange / reduction over the feature axis, an
accumulator variable (of the element type or not) carried across iterations, a decomposition into
blocks by thread id (range(lo, hi), omp_get_max_threads(), schedule=...) are all rejected.  What the
translator does NOT decide is which cell of `out` a statement reads and writes: `out[j]`, `out[0]`
are translated as written, and the proofs (each statement writes and reads cell V only) break.

cluster/util.py:_get_distance_method is plain Python: an if/elif chain of `metric == 'lit'`,
`metric in [lits]`, `metric in msmbuilder_libdistance_metrics`, `callable(metric)` tests whose
branches `return NAME` / `return md.rmsd` / build the msmbuilder closure / `return metric`, final
`raise ImproperlyConfigured`.  The module-level names returned must be bound exactly once in the
module, by `from ..geometry.libdist import ...` (-> gen_util_imports).
"""
import ast, os, re
from pyast import reject
from core import TranslatorReject
import tr_dist

REL = "enspara/geometry/libdist.pyx"
UTIL = "enspara/cluster/util.py"
KERNELS = ("_euclidean", "_manhattan", "_hamming")
DECORATORS = ("@cython.boundscheck(False)", "@cython.wraparound(False)")
NPT = {"np.int8_t": "I8", "np.int16_t": "I16", "np.int32_t": "I32", "np.int64_t": "I64",
       "np.uint8_t": "U8", "np.uint16_t": "U16", "np.uint32_t": "U32", "np.uint64_t": "U64",
       "np.float32_t": "F32", "np.float64_t": "F64"}
ALL_DT = ["I8", "I16", "I32", "I64", "U8", "U16", "U32", "U64", "F32", "F64", "OtherT"]
BINOPS = {ast.Sub: "a_sub", ast.Add: "a_add", ast.Mult: "a_mul"}
CALLS = {"fabs": "a_fabs", "sqrt": "a_sqrt"}
RESERVED = {"X", "y", "out", "n_samples", "n_features", "ar", "rd", "assign", "when", "for_range"}


def R(msg):
    raise TranslatorReject("%s: %s" % (REL, msg))


# ----------------------------------------------------------------------------- fused types
def fused_types(src):
    out = {}
    for m in re.finditer(r"^ctypedef fused (\w+):\n((?:[ \t]+\S[^\n]*\n)+)", src, flags=re.M):
        members = [l.strip() for l in m.group(2).splitlines()]
        for t in members:
            if t not in NPT:
                R("fused type %s: unknown member %s" % (m.group(1), t))
        if m.group(1) in out:
            R("fused type %s defined twice" % m.group(1))
        out[m.group(1)] = [NPT[t] for t in members]
    return out


# ----------------------------------------------------------------------------- cutting a kernel
def cut_kernel(src, name, fused):
    ms = list(re.finditer(r"^((?:@[^\n]*\n)*)def %s\(.*?(?=^\S|\Z)" % re.escape(name), src, flags=re.S | re.M))
    if len(ms) != 1:
        R("expected exactly one def %s, found %d" % (name, len(ms)))
    m = ms[0]
    decos = [l.strip() for l in m.group(1).splitlines() if l.strip()]
    for d in decos:
        if d not in DECORATORS:
            R("%s: unexpected decorator %s" % (name, d))
    text = m.group(0)[len(m.group(1)):]
    sig = re.match(r"def %s\(\s*np\.ndarray\[(\w+), ndim=2\] X,\s*np\.ndarray\[(\w+), ndim=1\] y,"
                   r"\s*np\.ndarray\[np\.float64_t, ndim=1\] out\s*\):" % re.escape(name), text)
    if not sig or sig.group(1) != sig.group(2) or sig.group(1) not in fused:
        R("unexpected signature of %s" % name)
    text = "def %s(X, y, out):" % name + text[sig.end():]
    longs, doubles, bounds = [], [], {}
    lines = []
    for line in text.split("\n"):
        s = line.rstrip()
        st = s.strip()
        if st.startswith("cdef"):
            st = st.split("#", 1)[0].rstrip()
        ind = s[:len(s) - len(s.lstrip())]
        if st.startswith("cdef"):
            if len(ind) != 4:
                R("%s: cdef inside a block: %s" % (name, st))
            m1 = re.fullmatch(r"cdef long (\w+(?:\s*,\s*\w+)*)(?:\s*=\s*0)?", st)
            m2 = re.fullmatch(r"cdef long (n_samples|n_features) = len\((out|y)\)", st)
            m3 = re.fullmatch(r"cdef double (\w+(?:\s*,\s*\w+)*)", st)
            if m2:
                if (m2.group(1), m2.group(2)) not in (("n_samples", "out"), ("n_features", "y")) \
                        or m2.group(1) in bounds:
                    R("%s: unexpected loop bound: %s" % (name, st))
                bounds[m2.group(1)] = True
                lines.append(ind + "pass")
            elif m1:
                longs += [x.strip() for x in m1.group(1).split(",")]
                lines.append(ind + "pass")
            elif m3:
                doubles += [x.strip() for x in m3.group(1).split(",")]
                lines.append(ind + "pass")
            else:
                R("%s: unsupported cdef line: %s" % (name, st))
            continue
        # casts: <double>NAME[...] and <double>NAME
        s2 = re.sub(r"<double>\s*(\w+\[[^\[\]]*\])", r"__dbl(\1)", s)
        s2 = re.sub(r"<double>\s*(\w+)\b(?!\s*[\[\(\.])", r"__dbl(\1)", s2)
        if "<" in re.sub(r"'[^']*'|\"[^\"]*\"", "", s2).split("#", 1)[0]:
            R("%s: unsupported cast or comparison: %s" % (name, st))
        lines.append(s2)
    if set(bounds) != {"n_samples", "n_features"}:
        R("%s: n_samples = len(out) and n_features = len(y) must both be declared" % name)
    names = longs + doubles
    if len(set(names)) != len(names) or set(names) & RESERVED or "__dbl" in names:
        R("%s: clashing local names %s" % (name, names))
    try:
        tree = ast.parse("\n".join(lines))
    except SyntaxError as ex:
        R("%s is not plain Python after removing cdef/casts: %s" % (name, ex))
    if len(tree.body) != 1 or not isinstance(tree.body[0], ast.FunctionDef):
        R("unexpected shape of %s" % name)
    return tree.body[0], set(longs), set(doubles), fused[sig.group(1)]


# ----------------------------------------------------------------------------- expressions
class Ctx:
    def __init__(self, longs, doubles):
        self.longs, self.doubles = longs, doubles
        self.loopvars = []          # enclosing loop variables, outermost first
        self.lets = {}              # double temporaries bound in the current inner block


def index(e, cx):
    """K of out[K]: a loop variable or a non-negative literal -> coq nat term"""
    if isinstance(e, ast.Name) and e.id in cx.loopvars:
        return e.id
    if isinstance(e, ast.Constant) and type(e.value) is int and e.value >= 0:
        return "%d%%nat" % e.value
    reject(e, "index of out must be a loop variable or a non-negative literal")


def element(e, cx):
    """X[V, W] / y[W] -> coq Z term, or None"""
    if not (isinstance(e, ast.Subscript) and isinstance(e.value, ast.Name)):
        return None
    if e.value.id == "X" and isinstance(e.slice, ast.Tuple) and len(e.slice.elts) == 2 \
            and all(isinstance(x, ast.Name) and x.id in cx.loopvars for x in e.slice.elts):
        return "(get2 X %s %s)" % (e.slice.elts[0].id, e.slice.elts[1].id)
    if e.value.id == "y" and isinstance(e.slice, ast.Name) and e.slice.id in cx.loopvars:
        return "(get1 y %s)" % e.slice.id
    return None


def expr(e, cx):
    """an expression of C type double -> coq term of type A"""
    if isinstance(e, ast.Constant) and type(e.value) is int:
        return "(a_lit ar (%d))" % e.value
    if isinstance(e, ast.Name) and e.id in cx.lets:
        return e.id
    if isinstance(e, ast.Subscript) and isinstance(e.value, ast.Name) and e.value.id == "out":
        return "(rd ar out %s)" % index(e.slice, cx)
    if isinstance(e, ast.Call) and isinstance(e.func, ast.Name) and not e.keywords and len(e.args) == 1:
        if e.func.id == "__dbl":
            v = element(e.args[0], cx)
            if v is None:
                reject(e, "<double> is accepted on X[V, W] and y[W] only")
            return "(a_cast ar %s)" % v
        if e.func.id in CALLS:
            return "(%s ar %s)" % (CALLS[e.func.id], expr(e.args[0], cx))
    if isinstance(e, ast.BinOp) and type(e.op) in BINOPS:
        return "(%s ar %s %s)" % (BINOPS[type(e.op)], expr(e.left, cx), expr(e.right, cx))
    reject(e, "unsupported expression (an element of X or y must be cast with <double> first)")


def out_stmt(s, cx, allow_plain, allow_div):
    """out[K] = E / out[K] += E / out[K] /= n_features -> coq stmt term"""
    def target(t):
        if not (isinstance(t, ast.Subscript) and isinstance(t.value, ast.Name) and t.value.id == "out"):
            reject(s, "only cells of out may be assigned")
        return index(t.slice, cx)
    if isinstance(s, ast.Assign) and allow_plain and len(s.targets) == 1 and isinstance(s.targets[0], ast.Subscript):
        return "assign %s (fun out => %s)" % (target(s.targets[0]), expr(s.value, cx))
    if isinstance(s, ast.AugAssign):
        k = target(s.target)
        if isinstance(s.op, ast.Add):
            return "assign %s (fun out => a_add ar (rd ar out %s) %s)" % (k, k, expr(s.value, cx))
        if isinstance(s.op, ast.Div) and allow_div and isinstance(s.value, ast.Name) and s.value.id == "n_features":
            return "assign %s (fun out => a_divn ar (rd ar out %s) (Z.of_nat n_features))" % (k, k)
    reject(s, "unsupported statement")


def wrap_lets(cx, term):
    for name, v in reversed(list(cx.lets.items())):
        term = "let %s := %s in %s" % (name, v, term)
    return term


def inner_block(stmts, cx, in_if=False):
    """-> list of coq terms of type list stmt"""
    parts = []
    if not stmts:
        reject(ast.Pass(), "empty block")
    for s in stmts:
        if isinstance(s, ast.Assign) and len(s.targets) == 1 and isinstance(s.targets[0], ast.Name):
            name = s.targets[0].id
            if in_if or name not in cx.doubles or name in cx.lets:
                reject(s, "a temporary must be a `cdef double` name assigned once, directly in the inner loop body")
            v = expr(s.value, cx)
            cx.lets[name] = v
        elif isinstance(s, ast.If):
            if in_if or s.orelse:
                reject(s, "only a single-level `if` without else is translated")
            t = s.test
            ok = isinstance(t, ast.Compare) and len(t.ops) == 1 and isinstance(t.ops[0], ast.NotEq)
            l = element(t.left, cx) if ok else None
            r = element(t.comparators[0], cx) if ok else None
            if l is None or r is None:
                reject(s, "condition must be ELEMENT != ELEMENT")
            body = inner_block(list(s.body), cx, in_if=True)
            parts.append("when (a_ne ar %s %s) (%s)" % (l, r, " ++ ".join(body)))
        else:
            parts.append("[%s]" % wrap_stmt(cx, out_stmt(s, cx, allow_plain=False, allow_div=False)))
    if not parts:
        reject(stmts[0], "block without effect")
    return parts


def wrap_stmt(cx, st):
    # `assign K (fun out => E)`: the temporaries are bound inside the right-hand side
    m = re.match(r"(assign \S+ \(fun out => )(.*)\)$", st, flags=re.S)
    return m.group(1) + wrap_lets(cx, m.group(2)) + ")"


def prange_loop(s, cx, name):
    if not (isinstance(s, ast.For) and isinstance(s.target, ast.Name) and not s.orelse
            and isinstance(s.iter, ast.Call) and isinstance(s.iter.func, ast.Name) and s.iter.func.id == "prange"):
        reject(s, "%s: expected `for V in prange(n_samples, nogil=True)`" % name)
    kw = s.iter.keywords
    if not (len(s.iter.args) == 1 and isinstance(s.iter.args[0], ast.Name) and s.iter.args[0].id == "n_samples"
            and len(kw) == 1 and kw[0].arg == "nogil" and isinstance(kw[0].value, ast.Constant)
            and kw[0].value.value is True):
        reject(s, "%s: prange must be over n_samples with exactly nogil=True" % name)
    v = s.target.id
    if v not in cx.longs:
        reject(s, "prange variable must be a `cdef long` name")
    cx.loopvars = [v]
    parts = []
    for b in s.body:
        if isinstance(b, ast.For):
            ok = isinstance(b.target, ast.Name) and not b.orelse and isinstance(b.iter, ast.Call) \
                and isinstance(b.iter.func, ast.Name) and b.iter.func.id == "range" and not b.iter.keywords \
                and len(b.iter.args) == 1 and isinstance(b.iter.args[0], ast.Name) and b.iter.args[0].id == "n_features"
            if not ok:
                reject(b, "%s: inner loop must be `for W in range(n_features)`" % name)
            w = b.target.id
            if w not in cx.longs or w == v:
                reject(b, "inner loop variable must be another `cdef long` name")
            cx.loopvars = [v, w]
            cx.lets = {}
            inner = inner_block(list(b.body), cx)
            cx.loopvars = [v]
            cx.lets = {}
            parts.append("for_range n_features (fun %s =>\n           %s)" % (w, " ++\n           ".join(inner)))
        else:
            parts.append("[%s]" % out_stmt(b, cx, allow_plain=True, allow_div=True))
    if not parts:
        reject(s, "empty prange body")
    return "(fun %s : nat =>\n       %s)" % (v, " ++\n       ".join(parts))


def kernel(src, name, fused):
    fn, longs, doubles, dts = cut_kernel(src, name, fused)
    body = [s for s in fn.body if not isinstance(s, ast.Pass)
            and not (isinstance(s, ast.Expr) and isinstance(s.value, ast.Constant))]
    want = {"len(out) == X.shape[0]", "n_features == X.shape[1]"}
    i = 0
    while i < len(body) and isinstance(body[i], ast.Assert):
        a = body[i]
        if a.msg is not None and not (isinstance(a.msg, ast.Constant) and isinstance(a.msg.value, str)):
            reject(a, "assert message must be a string literal")
        t = ast.unparse(a.test)
        if t not in want:
            reject(a, "%s: unexpected assert" % name)
        want.discard(t)
        i += 1
    cx = Ctx(longs, doubles)
    phases = []
    while i < len(body) and isinstance(body[i], ast.For):
        phases.append(prange_loop(body[i], cx, name))
        i += 1
    if not phases:
        R("%s: no prange loop found" % name)
    if i != len(body) - 1 or not isinstance(body[i], ast.Return) \
            or ast.unparse(body[i].value) not in ("out", "out.reshape(-1, 1)"):
        reject(body[i] if i < len(body) else fn, "%s: expected the prange loops to be followed by `return out`" % name)
    return phases, dts


# ----------------------------------------------------------------------------- public wrappers
def wrappers(src):
    """which kernel each public function calls (tr_dist checks the shape validate; kernel; return out)"""
    m = {}
    for pub in ("euclidean", "manhattan", "hamming"):
        f = tr_dist.cut(src, pub, public=True)
        calls = [s.value.func.id for s in f.body if isinstance(s, ast.Expr) and isinstance(s.value, ast.Call)
                 and isinstance(s.value.func, ast.Name)]
        if len(calls) != 1 or calls[0] not in KERNELS:
            reject(f, "public wrapper %s must call exactly one kernel" % pub)
        m[pub] = calls[0]
    return m


# ----------------------------------------------------------------------------- _get_distance_method
def cstr(s):
    if not isinstance(s, str) or not re.fullmatch(r"[A-Za-z0-9_.\- ]*", s):
        raise TranslatorReject("%s: string literal %r not representable" % (UTIL, s))
    return '"%s"' % s


def str_list(e):
    if isinstance(e, ast.List) and all(isinstance(x, ast.Constant) and isinstance(x.value, str) for x in e.elts):
        return "[%s]" % "; ".join(cstr(x.value) for x in e.elts)
    return None


def metric_cond(t, arg):
    if isinstance(t, ast.Compare) and len(t.ops) == 1 and isinstance(t.left, ast.Name) and t.left.id == arg:
        c = t.comparators[0]
        if isinstance(t.ops[0], ast.Eq) and isinstance(c, ast.Constant) and isinstance(c.value, str):
            return "marg_eqb %s %s" % (arg, cstr(c.value))
        if isinstance(t.ops[0], ast.In):
            l = str_list(c)
            if l is not None:
                return "marg_in %s %s" % (arg, l)
            if isinstance(c, ast.Name) and c.id == "msmbuilder_libdistance_metrics":
                return "marg_in %s gen_msmbuilder_libdistance_metrics" % arg
    if isinstance(t, ast.Call) and isinstance(t.func, ast.Name) and t.func.id == "callable" and not t.keywords \
            and len(t.args) == 1 and isinstance(t.args[0], ast.Name) and t.args[0].id == arg:
        return "marg_callable %s" % arg
    reject(t, "_get_distance_method: unsupported condition")


def metric_branch(stmts, arg, returned):
    if len(stmts) == 1 and isinstance(stmts[0], ast.Return):
        v = stmts[0].value
        if isinstance(v, ast.Name) and v.id == arg:
            return "RSelf"
        if isinstance(v, ast.Name):
            returned.append(v.id)
            return "RName %s" % cstr(v.id)
        if isinstance(v, ast.Attribute) and isinstance(v.value, ast.Name):
            return "RAttr %s %s" % (cstr(v.value.id), cstr(v.attr))
    if len(stmts) == 1 and isinstance(stmts[0], ast.Raise):
        ex = stmts[0].exc
        if isinstance(ex, ast.Call) and isinstance(ex.func, ast.Name) and ex.func.id == "ImproperlyConfigured":
            return "RImproperlyConfigured"
    # the msmbuilder closure: try: import msmbuilder.libdistance ... ; def f(X, Y): return libdistance.dist(...); return f
    if len(stmts) == 3 and isinstance(stmts[0], ast.Try) and isinstance(stmts[1], ast.FunctionDef) \
            and isinstance(stmts[2], ast.Return) and isinstance(stmts[2].value, ast.Name) \
            and stmts[2].value.id == stmts[1].name and "libdistance.dist(" in ast.unparse(stmts[1]) \
            and len(stmts[0].body) == 1 and isinstance(stmts[0].body[0], ast.Import) \
            and stmts[0].body[0].names[0].name == "msmbuilder.libdistance":
        return "RLibdistance"
    reject(stmts[0], "_get_distance_method: unsupported branch")


def metric_chain(stmts, arg, returned):
    if not stmts:
        reject(ast.Pass(), "_get_distance_method: control reaches the end of the function")
    s = stmts[0]
    if isinstance(s, ast.If):
        c = metric_cond(s.test, arg)
        th = metric_branch(list(s.body), arg, returned)
        if s.orelse:
            if stmts[1:]:
                reject(s, "_get_distance_method: statements after an if/else chain")
            el = metric_chain(list(s.orelse), arg, returned)
        else:
            el = metric_chain(stmts[1:], arg, returned)
        return "if %s then %s else\n  %s" % (c, th, el)
    if len(stmts) == 1:
        return metric_branch(stmts, arg, returned)
    reject(s, "_get_distance_method: unsupported statement")


def distance_method(repo):
    p = os.path.join(repo, UTIL)
    try:
        with open(p) as f:
            tree = ast.parse(f.read())
    except (OSError, SyntaxError) as ex:
        raise TranslatorReject("%s: cannot parse: %s" % (UTIL, ex))
    fns = [n for n in tree.body if isinstance(n, ast.FunctionDef) and n.name == "_get_distance_method"]
    if len(fns) != 1:
        raise TranslatorReject("%s: expected exactly one _get_distance_method" % UTIL)
    fn = fns[0]
    a = fn.args
    if len(a.args) != 1 or a.defaults or a.vararg or a.kwarg or a.kwonlyargs or fn.decorator_list:
        reject(fn, "_get_distance_method: unexpected signature")
    arg = a.args[0].arg
    returned = []
    body = [s for s in fn.body if not (isinstance(s, ast.Expr) and isinstance(s.value, ast.Constant))]
    chain = metric_chain(body, arg, returned)
    # module-level bindings: who binds the returned names, and the libdistance metric list
    binders = {}
    lst = None
    for n in ast.walk(tree):
        names = []
        if isinstance(n, (ast.FunctionDef, ast.ClassDef, ast.AsyncFunctionDef)):
            names = [n.name]
        elif isinstance(n, ast.Import):
            names = [(x.asname or x.name).split(".")[0] for x in n.names]
        elif isinstance(n, ast.ImportFrom):
            names = [x.asname or x.name for x in n.names]
        elif isinstance(n, ast.Name) and isinstance(n.ctx, (ast.Store, ast.Del)):
            names = [n.id]
        elif isinstance(n, ast.arg):
            names = [n.arg]
        elif isinstance(n, ast.Global):
            names = list(n.names)
        for x in names:
            binders.setdefault(x, []).append(n)
    imports = []
    for name in sorted(set(returned)):
        bs = binders.get(name, [])
        if len(bs) != 1 or not isinstance(bs[0], ast.ImportFrom) or bs[0] not in tree.body:
            raise TranslatorReject("%s: name %s returned by _get_distance_method is not bound exactly once, by a "
                                   "module-level `from ... import`" % (UTIL, name))
        imp = bs[0]
        mod = "." * imp.level + (imp.module or "")
        if mod not in ("..geometry.libdist", "enspara.geometry.libdist"):
            raise TranslatorReject("%s: %s is imported from %s, not from geometry.libdist" % (UTIL, name, mod))
        orig = [x.name for x in imp.names if (x.asname or x.name) == name][0]
        imports.append("(%s, %s)" % (cstr(name), cstr(orig)))
    bs = binders.get("msmbuilder_libdistance_metrics", [])
    if len(bs) == 1:
        for n in tree.body:
            if isinstance(n, ast.Assign) and len(n.targets) == 1 and n.targets[0] is bs[0]:
                lst = str_list(n.value)
    if lst is None:
        raise TranslatorReject("%s: msmbuilder_libdistance_metrics must be one module-level list of string literals" % UTIL)
    if "md" in binders and not (len(binders["md"]) == 1 and isinstance(binders["md"][0], ast.Import)):
        raise TranslatorReject("%s: md is rebound" % UTIL)
    return ["(* %s *)" % UTIL,
            "Definition gen_msmbuilder_libdistance_metrics : list string :=\n  %s.\n" % lst,
            "(* local name, name inside enspara.geometry.libdist *)",
            "Definition gen_util_imports : list (string * string) :=\n  [%s].\n" % "; ".join(imports),
            "Definition gen_get_distance_method (%s : marg) : mres :=\n  %s.\n" % (arg, chain)]


# ----------------------------------------------------------------------------- output
def translate(repo):
    p = os.path.join(repo, REL)
    try:
        with open(p) as f:
            src = f.read()
    except OSError as ex:
        raise TranslatorReject("%s: %s" % (REL, ex))
    if re.search(r"^\s*cimport\s+openmp|^\s*from\s+openmp\b", src, flags=re.M):
        R("the OpenMP runtime API is imported (thread-id dependent code is not translated)")
    fused = fused_types(src)
    out = ["(* GENERATED by translator/tr_distkern.py from %s and %s -- do not edit *)" % (REL, UTIL),
           "From Coq Require Import List ZArith Bool String.",
           "From EV Require Import PFor DistBase Dist DistKernBase.",
           "Import ListNotations.", "Open Scope string_scope.", "Open Scope list_scope.", ""]
    sup = {}
    out += ["Section Kernels.", "  Context {A : Type}.", "  Variable ar : arith A.",
            "  Variable X y : ndarr.", "  (* cdef long n_features = len(y) *)", "  Variable n_features : nat.", ""]
    for name in KERNELS:
        phases, dts = kernel(src, name, fused)
        sup[name] = dts
        out.append("  (* %s: one entry per `for V in prange(n_samples, nogil=True)` loop, in source order *)" % name)
        out.append("  Definition gen%s : list (phase A) :=\n    [ %s ].\n" % (name, ";\n      ".join(phases)))
    out.append("End Kernels.\n")
    w = wrappers(src)
    coqm = {"euclidean": "Euclid", "manhattan": "Manhattan", "hamming": "Hamming"}
    out.append("(* the kernel each public function calls *)")
    out.append("Definition gen_public {A : Type} (ar : arith A) (mt : metric) (X y : ndarr) (n_features : nat) "
               ": list (phase A) :=\n  match mt with\n%s\n  end.\n" % "\n".join(
                   "  | %s => gen%s ar X y n_features" % (coqm[p_], w[p_]) for p_ in ("euclidean", "manhattan", "hamming")))
    out.append("(* the fused element type of the kernel a public function calls *)")
    rows = []
    for p_ in ("euclidean", "manhattan", "hamming"):
        dts = sup[w[p_]]
        rows.append("  | %s, (%s) => true" % (coqm[p_], " | ".join(dts)))
    out.append("Definition gen_supports (mt : metric) (d : dtype) : bool :=\n  match mt, d with\n%s\n  | _, _ => false\n  end.\n"
               % "\n".join(rows))
    out += distance_method(repo)
    return {"Gen/DistKernGen.v": "\n".join(out)}


if __name__ == "__main__":
    import sys
    print(translate(sys.argv[1] if len(sys.argv) > 1 else "/repo")["Gen/DistKernGen.v"])
