"""Whole-tree scan for masked element-wise operations (property C19).

Every .py and .pyx under <repo>/enspara (enspara/test excepted) is searched for calls carrying a
`where=` keyword.  Each such call is classified, fail-closed:

  * where= is a string constant            -> not a mask (PyTables node path `where='/'`); listed only
  * callee is a NumPy reduction            -> where= selects the reduced elements, no output cell is
                                              left unwritten; listed only
  * callee is a NumPy ufunc (table below)  -> MASKED SITE: instantiate Model/Masked.v
  * anything else                          -> TranslatorReject naming the call

For a masked site the initial content of the output buffer is
  * `filled fill n`      when out= is np.zeros/zeros_like/ones/ones_like/full/full_like(...) inline,
                         or a local name all of whose bindings in the enclosing function are such
                         allocations and that is not mentioned between its allocation and the call;
  * the result of the previous site writing the same name, when the only mentions in between are
    earlier sites with out=<name> (the buffer then holds that site's result);
  * an opaque initialised buffer `buf` when the name is a recognised allocation with other
    stores in between (every cell written by the allocation, later stores are the program's own);
  * `junk` -- the universally quantified heap content -- when out= is absent or anything else.
The emitted obligation `forall junk1 junk2, site .. junk1 = site .. junk2` is closed by
`reflexivity`, which cannot succeed for the last form: Gen/MaskedSites.v then does not compile and
the check reports the site.  Emits Gen/MaskedSites.v.

Second scan (round 2, further down): every allocation that does not initialise memory must be
completed by a recognised store pattern before the buffer is mentioned again, and no result-cache
idiom may occur; emits Gen/AllocSites.v (obligations closed by Proof/AllocProofs.v).
"""
import ast, os, re, sys

sys.path.insert(0, os.path.join(os.path.dirname(os.path.dirname(os.path.abspath(__file__))), "harness"))
from core import TranslatorReject

NP_NAMES = {"np", "numpy"}
UNARY = {"log", "log2", "log10", "log1p", "exp", "exp2", "expm1", "sqrt", "cbrt", "square", "reciprocal",
         "negative", "positive", "absolute", "abs", "fabs", "sign", "sin", "cos", "tan", "arcsin", "arccos",
         "arctan", "sinh", "cosh", "tanh", "floor", "ceil", "rint", "trunc", "isnan", "isinf", "isfinite",
         "logical_not", "invert", "conjugate", "conj", "deg2rad", "rad2deg"}
BINARY = {"add", "subtract", "multiply", "divide", "true_divide", "floor_divide", "power", "float_power",
          "mod", "remainder", "fmod", "maximum", "minimum", "fmax", "fmin", "arctan2", "hypot",
          "logaddexp", "logaddexp2", "greater", "greater_equal", "less", "less_equal", "equal",
          "not_equal", "logical_and", "logical_or", "logical_xor", "bitwise_and", "bitwise_or",
          "bitwise_xor", "copysign", "nextafter", "ldexp", "heaviside"}
REDUCTIONS = {"sum", "prod", "any", "all", "mean", "std", "var", "min", "max", "amin", "amax",
              "nansum", "nanprod", "nanmean", "nanstd", "nanvar", "nanmin", "nanmax", "count_nonzero"}
ALLOC = {"zeros": 0, "zeros_like": 0, "ones": 1, "ones_like": 1, "full": None, "full_like": None}
UNINIT = {"empty", "empty_like", "ndarray"}

SKIP_DIRS = {os.path.join("enspara", "test")}


def source_files(repo):
    out = []
    root = os.path.join(repo, "enspara")
    if not os.path.isdir(root):
        raise TranslatorReject("no enspara package under %s" % repo)
    for d, dirs, files in os.walk(root):
        rel = os.path.relpath(d, repo)
        dirs[:] = sorted(x for x in dirs if os.path.join(rel, x) not in SKIP_DIRS and x != "__pycache__")
        for fn in sorted(files):
            if fn.endswith(".py") or fn.endswith(".pyx"):
                out.append(os.path.join(rel, fn))
    return out


# ----------------------------------------------------------------------------- text-level scan
def blank_comments_and_strings(src):
    """Same length, same line structure; comments and string literals replaced by blanks."""
    out = list(src)
    i, n = 0, len(src)
    while i < n:
        c = src[i]
        if c == "#":
            while i < n and src[i] != "\n":
                out[i] = " "
                i += 1
        elif c in "'\"":
            q = src[i:i + 3] if src[i:i + 3] in ("'''", '"""') else c
            j = i + len(q)
            while j < n:
                if src[j] == "\\":
                    j += 2
                    continue
                if src.startswith(q, j):
                    break
                if len(q) == 1 and src[j] == "\n":
                    break
                j += 1
            end = min(n, j + len(q))
            for k in range(i, end):
                if src[k] != "\n":
                    out[k] = " "
            i = end
        else:
            i += 1
    return "".join(out)


WHERE_RE = re.compile(r"(?<![\w.])where\s*=(?!=)")


def text_hits(src):
    """[(lineno, offset)] of `where=` tokens outside comments/strings."""
    blank = blank_comments_and_strings(src)
    return [(blank.count("\n", 0, m.start()) + 1, m.start()) for m in WHERE_RE.finditer(blank)], blank


def enclosing_call_text(src, blank, off):
    """Text `callee(...)` of the innermost parenthesis pair around offset `off`, or None."""
    depth, i = 0, off - 1
    while i >= 0:
        ch = blank[i]
        if ch in ")]}":
            depth += 1
        elif ch in "([{":
            if depth == 0:
                break
            depth -= 1
        i -= 1
    if i < 0 or blank[i] != "(":
        return None
    j = i - 1
    while j >= 0 and (blank[j].isalnum() or blank[j] in "_."):
        j -= 1
    start = j + 1
    depth, k = 0, i
    while k < len(blank):
        if blank[k] in "([{":
            depth += 1
        elif blank[k] in ")]}":
            depth -= 1
            if depth == 0:
                break
        k += 1
    if k >= len(blank) or start == i:
        return None
    return src[start:k + 1]


# ----------------------------------------------------------------------------- classification
class Site:
    def __init__(self, **kw):
        self.__dict__.update(kw)


def _np_attr(node):
    """np.X / numpy.X -> 'X' else None"""
    if isinstance(node, ast.Attribute) and isinstance(node.value, ast.Name) and node.value.id in NP_NAMES:
        return node.attr
    return None


def _alloc_of(expr):
    """expr is np.zeros(...)-like -> (text, fill) else None."""
    if isinstance(expr, ast.Call):
        a = _np_attr(expr.func)
        if a in ALLOC:
            return ast.unparse(expr), ALLOC[a]
    return None


def _bindings(fn, name):
    """All statements of function `fn` (nested functions excluded) that bind `name`:
    [(lineno, end_lineno, value-or-None)]; parameters are reported with value None at the def line."""
    res = []
    args = fn.args
    for a in list(args.posonlyargs) + list(args.args) + list(args.kwonlyargs) + \
            [x for x in (args.vararg, args.kwarg) if x is not None]:
        if a.arg == name:
            res.append((fn.lineno, fn.lineno, None))

    def targets_of(t):
        if isinstance(t, ast.Name):
            return [t.id]
        if isinstance(t, (ast.Tuple, ast.List)):
            return [x for e in t.elts for x in targets_of(e)]
        if isinstance(t, ast.Starred):
            return targets_of(t.value)
        return []

    def visit(node):
        for ch in ast.iter_child_nodes(node):
            if isinstance(ch, (ast.FunctionDef, ast.AsyncFunctionDef, ast.ClassDef, ast.Lambda)):
                if getattr(ch, "name", None) == name:
                    res.append((ch.lineno, ch.end_lineno, None))
                continue
            if isinstance(ch, ast.Assign):
                for t in ch.targets:
                    if isinstance(t, ast.Name) and t.id == name and len(ch.targets) == 1:
                        res.append((ch.lineno, ch.end_lineno, ch.value))
                    elif name in targets_of(t):
                        res.append((ch.lineno, ch.end_lineno, None))
            elif isinstance(ch, (ast.AugAssign, ast.AnnAssign)):
                if name in targets_of(ch.target):
                    res.append((ch.lineno, ch.end_lineno,
                                ch.value if isinstance(ch, ast.AnnAssign) and ch.value is not None else None))
            elif isinstance(ch, (ast.For, ast.AsyncFor)):
                if name in targets_of(ch.target):
                    res.append((ch.lineno, ch.lineno, None))
            elif isinstance(ch, (ast.With, ast.AsyncWith)):
                for it in ch.items:
                    if it.optional_vars is not None and name in targets_of(it.optional_vars):
                        res.append((ch.lineno, ch.lineno, None))
            elif isinstance(ch, (ast.Import, ast.ImportFrom)):
                for al in ch.names:
                    if (al.asname or al.name.split(".")[0]) == name:
                        res.append((ch.lineno, ch.lineno, None))
            elif isinstance(ch, (ast.Global, ast.Nonlocal)):
                if name in ch.names:
                    res.append((ch.lineno, ch.lineno, None))
            elif isinstance(ch, ast.NamedExpr):
                if name in targets_of(ch.target):
                    res.append((ch.lineno, ch.end_lineno, None))
            elif isinstance(ch, ast.ExceptHandler):
                if ch.name == name:
                    res.append((ch.lineno, ch.lineno, None))
            elif isinstance(ch, ast.Delete):
                for t in ch.targets:
                    if name in targets_of(t):
                        res.append((ch.lineno, ch.lineno, None))
            visit(ch)
    visit(fn)
    return sorted(res, key=lambda r: r[0])


def _mentions(fn, name, lo, hi):
    """ast.Name nodes `name` inside fn with lo < lineno < hi (exclusive)."""
    return [n for n in ast.walk(fn) if isinstance(n, ast.Name) and n.id == name and lo < n.lineno < hi]


def classify_call(call, rel, fn, src_lines):
    """-> Site or None (call does not carry where=)."""
    kw = {k.arg: k.value for k in call.keywords if k.arg is not None}
    if "where" not in kw:
        return None
    text = " ".join(ast.unparse(call).split())
    fname = fn.name if fn is not None else "<module>"
    base = dict(rel=rel, line=call.lineno, end_line=call.end_lineno, func=fname, text=text, call=call, fn=fn)
    w = kw["where"]
    if isinstance(w, ast.Constant) and isinstance(w.value, str):
        return Site(kind="path", why="where= is the string %r (node path), not a mask" % w.value, **base)
    a = _np_attr(call.func)
    if a in REDUCTIONS:
        return Site(kind="reduction", why="np.%s reduces over the selected elements; no output cell stays unwritten" % a,
                    **base)
    if a in UNARY or a in BINARY:
        arity = 1 if a in UNARY else 2
        pos = list(call.args)
        if any(isinstance(p, ast.Starred) for p in pos) or any(k.arg is None for k in call.keywords):
            raise TranslatorReject("%s:%d %s: masked call with */** arguments cannot be analysed: %s"
                                   % (rel, call.lineno, fname, text))
        out = kw.get("out")
        if len(pos) == arity + 1 and out is None:
            out = pos[-1]
            pos = pos[:-1]
        if len(pos) != arity:
            raise TranslatorReject("%s:%d %s: np.%s expects %d operand(s): %s" % (rel, call.lineno, fname, a, arity, text))
        if isinstance(out, ast.Tuple) and len(out.elts) == 1:
            out = out.elts[0]
        if isinstance(out, ast.Constant) and out.value is None:
            out = None
        return Site(kind="masked", ufunc=a, arity=arity, operands=[ast.unparse(p) for p in pos],
                    mask=ast.unparse(w), out=out, out_text=(ast.unparse(out) if out is not None else None), **base)
    raise TranslatorReject("%s:%d %s: call carrying where= whose callee is neither a recognised NumPy ufunc nor a "
                           "reduction: %s" % (rel, call.lineno, fname, text))


def resolve_inits(sites):
    """Decide the initial buffer of every masked site (sites of one file, in line order)."""
    by_fn = {}
    for s in sites:
        if s.kind == "masked":
            by_fn.setdefault(id(s.fn), []).append(s)
    for group in by_fn.values():
        group.sort(key=lambda s: (s.line, s.call.col_offset))
        for idx, s in enumerate(group):
            out = s.out
            if out is None:
                s.init, s.guard = ("junk",), "UNGUARDED: no out= (NumPy allocates an uninitialised result)"
                continue
            al = _alloc_of(out)
            if al is not None:
                s.init, s.guard = ("filled", al[1]), "out= allocated inline by %s" % al[0]
                continue
            if isinstance(out, ast.Name) and s.fn is not None:
                name = out.id
                binds = _bindings(s.fn, name)
                before = [b for b in binds if b[0] < s.line]
                bad = [b for b in binds if b[2] is None or _alloc_of(b[2]) is None]
                if not before or bad:
                    why = ("never bound before the call" if not before else
                           "bound at line %d to something other than np.zeros/zeros_like/ones/ones_like/full/full_like"
                           % bad[0][0])
                    s.init, s.guard = ("junk",), "UNGUARDED: out=%s, a name %s" % (name, why)
                    continue
                last = before[-1]
                al = _alloc_of(last[2])
                between = _mentions(s.fn, name, last[1], s.line)
                prev = [p for p in group[:idx] if isinstance(p.out, ast.Name) and p.out.id == name and p.line > last[1]]
                prev_nodes = set()
                for p in prev:
                    prev_nodes.update(id(n) for n in ast.walk(p.call))
                others = [n for n in between if id(n) not in prev_nodes]
                where_alloc = "allocated at line %d by %s" % (last[0], al[0])
                if not between:
                    s.init, s.guard = ("filled", al[1]), "out=%s, %s, first use" % (name, where_alloc)
                elif not others and prev:
                    s.init = ("prev", prev[-1])
                    s.guard = "out=%s, %s; at the call it holds the result of the site at line %d" % (
                        name, where_alloc, prev[-1].line)
                else:
                    s.init = ("buf",)
                    s.guard = "out=%s, %s (every cell written), stored to since (first at line %d)" % (
                        name, where_alloc, others[0].lineno if others else between[0].lineno)
                continue
            s.init = ("junk",)
            s.guard = "UNGUARDED: out=%s is not a recognised initialised buffer" % s.out_text
    return sites


def scan_py(repo, rel):
    p = os.path.join(repo, rel)
    try:
        with open(p, encoding="utf-8") as f:
            src = f.read()
        tree = ast.parse(src)
    except (OSError, SyntaxError, UnicodeDecodeError) as ex:
        raise TranslatorReject("%s: cannot parse: %s" % (rel, ex))
    sites = []

    def visit(node, fn):
        for ch in ast.iter_child_nodes(node):
            nfn = ch if isinstance(ch, (ast.FunctionDef, ast.AsyncFunctionDef)) else fn
            if isinstance(ch, ast.Call):
                s = classify_call(ch, rel, fn, None)
                if s is not None:
                    sites.append(s)
            visit(ch, nfn)
    visit(tree, None)
    # cross-check with the text-level scan: every `where=` token must belong to a classified call
    hits, _ = text_hits(src)
    plain_assign = {n.lineno for n in ast.walk(tree) if isinstance(n, (ast.Assign, ast.AnnAssign, ast.AugAssign))
                    for t in (n.targets if isinstance(n, ast.Assign) else [n.target])
                    if isinstance(t, ast.Name) and t.id == "where"}
    defaults = set()
    for n in ast.walk(tree):
        if isinstance(n, (ast.FunctionDef, ast.AsyncFunctionDef, ast.Lambda)):
            for a in list(n.args.args) + list(n.args.kwonlyargs) + list(n.args.posonlyargs):
                if a.arg == "where":
                    defaults.add(a.lineno)
    for line, _off in hits:
        if any(s.line <= line <= s.end_line for s in sites) or line in plain_assign or line in defaults:
            continue
        raise TranslatorReject("%s:%d: a `where=` token that is not the keyword of a call the scanner classified" % (rel, line))
    sites.sort(key=lambda s: (s.line, s.call.col_offset))
    return resolve_inits(sites)


def scan_pyx(repo, rel):
    """Cython sources are not parsed as a whole: every `where=` token must sit in a call
    expression that parses as Python on its own; names cannot be resolved there, so only an inline
    initialised out= is accepted."""
    p = os.path.join(repo, rel)
    try:
        with open(p, encoding="utf-8") as f:
            src = f.read()
    except (OSError, UnicodeDecodeError) as ex:
        raise TranslatorReject("%s: cannot read: %s" % (rel, ex))
    hits, blank = text_hits(src)
    sites = []
    for line, off in hits:
        txt = enclosing_call_text(src, blank, off)
        if txt is None:
            raise TranslatorReject("%s:%d: `where=` outside a call expression the scanner can delimit" % (rel, line))
        try:
            node = ast.parse(" ".join(txt.split()), mode="eval").body
        except SyntaxError:
            raise TranslatorReject("%s:%d: call carrying where= is not plain Python: %s" % (rel, line, txt[:120]))
        if not isinstance(node, ast.Call):
            raise TranslatorReject("%s:%d: `where=` not in a call: %s" % (rel, line, txt[:120]))
        s = classify_call(node, rel, None, None)
        if s is None:
            raise TranslatorReject("%s:%d: could not attribute `where=` to a call: %s" % (rel, line, txt[:120]))
        s.line = s.end_line = line
        s.func = "<cython>"
        sites.append(s)
    return resolve_inits(sites)


def scan(repo):
    files = source_files(repo)
    sites = []
    for rel in files:
        sites += scan_pyx(repo, rel) if rel.endswith(".pyx") else scan_py(repo, rel)
    return files, sites


def uninit_allocs(repo, files):
    """np.empty / np.empty_like / np.ndarray( tokens, found by a plain text search that shares no code with
    scan_allocs: the harness cross-checks that each is one of the classified allocation sites."""
    res = []
    pat = re.compile(r"(?<![\w.])(?:np|numpy)\.(empty_like|empty|ndarray)\s*\(")
    for rel in files:
        with open(os.path.join(repo, rel), encoding="utf-8") as f:
            blank = blank_comments_and_strings(f.read())
        for m in pat.finditer(blank):
            res.append((rel, blank.count("\n", 0, m.start()) + 1, m.group(1)))
    return res


# ----------------------------------------------------------------------------- emission
def _ident(rel, line):
    stem = re.sub(r"\W", "_", rel[len("enspara/"):] if rel.startswith("enspara/") else rel)
    return "site_%s_L%d" % (stem, line)


def _cmt(s):
    return s.replace("(*", "( *").replace("*)", "* )")


def site_summary(s):
    d = {"file": s.rel, "line": s.line, "func": s.func, "call": s.text, "kind": s.kind}
    if s.kind == "masked":
        d.update(ufunc=s.ufunc, guard=s.guard, guarded=s.init[0] != "junk", init=s.init[0])
    else:
        d["why"] = s.why
    return d


def emit(repo):
    files, sites = scan(repo)
    masked = [s for s in sites if s.kind == "masked"]
    others = [s for s in sites if s.kind != "masked"]
    L = ["(* GENERATED by translator/sites.py -- do not edit.",
         "   Scanned %d source files under enspara/ (enspara/test excluded; %d .pyx): %d calls carry where=," % (
             len(files), sum(1 for f in files if f.endswith(".pyx")), len(sites)),
         "   %d of them masked element-wise operations (one obligation each). *)" % len(masked),
         "From Coq Require Import List Bool Arith.", "From EV Require Import Masked MaskedProofs.",
         "Import ListNotations.", ""]
    for s in others:
        L.append("(* not a mask: %s:%d %s  %s  -- %s *)" % (s.rel, s.line, s.func, _cmt(s.text), _cmt(s.why)))
    L.append("")
    names = {}
    used = set()
    for k, s in enumerate(masked, 1):
        nm = _ident(s.rel, s.line)
        while nm in used:
            nm += "_b"
        used.add(nm)
        s.ident = nm
        names[id(s)] = nm
        # parameters of this site (after the carrier A and before junk)
        own = [("uf%d" % k, "A -> A" if s.arity == 1 else "A -> A -> A")]
        aliased = (s.out_text is not None and s.arity == 1 and s.operands[0] == s.out_text)
        kindi = s.init[0]
        if kindi == "filled":
            own.append(("fill%d" % k, "A"))
        if kindi == "buf":
            own.append(("buf%d" % k, "list A"))
        ops = []
        for j, optxt in enumerate(s.operands):
            if s.out_text is not None and optxt == s.out_text and kindi in ("prev", "buf"):
                ops.append(None)            # the operand IS the output buffer (in-place call)
            else:
                own.append(("x%d_%d" % (k, j), "list A"))
                ops.append("x%d_%d" % (k, j))
        own.append(("m%d" % k, "list bool"))
        inherited = list(s.init[1].params) if kindi == "prev" else []
        s.params = inherited + own
        if kindi == "prev":
            p = s.init[1]
            buf_term = "(%s A %s junk)" % (p.ident, " ".join(n for n, _ in p.params))
        elif kindi == "buf":
            buf_term = "buf%d" % k
        else:
            buf_term = None
        op_terms = [(buf_term if o is None else o) for o in ops]
        shape = ("length %s" % op_terms[0]) if s.arity == 1 else ("length (combine %s %s)" % tuple(op_terms))
        if kindi == "filled":
            init_term = "(filled fill%d (%s))" % (k, shape)
        elif kindi == "junk":
            init_term = "junk"
        else:
            init_term = buf_term
        body = ("masked uf%d %s m%d %s" % (k, op_terms[0], k, init_term) if s.arity == 1 else
                "masked2 uf%d %s %s m%d %s" % (k, op_terms[0], op_terms[1], k, init_term))
        binders = " ".join("(%s : %s)" % (n, t) for n, t in s.params)
        argl = " ".join(n for n, _ in s.params)
        L.append("(* masked site %d/%d  %s:%d  in %s" % (k, len(masked), s.rel, s.line, s.func))
        L.append("     %s" % _cmt(s.text))
        L.append("     %s *)" % _cmt(s.guard))
        L.append("Definition %s (A : Type) %s (junk : list A) : list A :=\n  %s." % (nm, binders, body))
        L.append("Definition %s_stmt : Prop :=\n  forall (A : Type) %s (junk1 junk2 : list A),\n    %s A %s junk1 = %s A %s junk2."
                 % (nm, binders, nm, argl, nm, argl))
        L.append("Lemma %s_heap_independent : %s_stmt.\nProof. unfold %s_stmt. intros. reflexivity. Qed." % (nm, nm, nm))
        if kindi == "filled":
            x_term = op_terms[0] if s.arity == 1 else "(combine %s %s)" % tuple(op_terms)
            L.append("Lemma %s_masked_out_cell_is_fill :\n  forall (A : Type) %s (junk : list A) (i : nat),\n"
                     "    i < length %s -> nth_error m%d i = Some false ->\n    nth_error (%s A %s junk) i = Some fill%d."
                     % (nm, binders, x_term, k, nm, argl, k))
            L.append("Proof. intros. unfold %s%s. apply masked_filled_out_cell; assumption. Qed." % (
                nm, "" if s.arity == 1 else ", masked2"))
        L.append("")
    L.append("Definition n_masked_sites : nat := %d." % len(masked))
    L.append("Definition n_other_where_calls : nat := %d." % len(others))
    L.append("Definition n_scanned_files : nat := %d." % len(files))
    L.append("Definition masked_site_lines : list nat := [%s]." % "; ".join(str(s.line) for s in masked))
    L.append("")
    conj = "True"
    proof = "I"
    for s in reversed(masked):
        conj = "%s_stmt /\\ (%s)" % (s.ident, conj)
        proof = "(conj %s_heap_independent %s)" % (s.ident, proof)
    L.append("(* every masked call site of the tree: its result does not depend on the heap *)")
    L.append("Definition all_sites_statement : Prop :=\n  %s." % conj)
    L.append("Lemma all_sites_heap_independent : all_sites_statement.\nProof. exact %s. Qed." % proof)
    L.append("")
    return "\n".join(L), files, sites


# ============================================================================= second scan:
# allocations that do not initialise memory, and result caches (C19 round 2)
#
# Every call of an allocator that hands out uninitialised cells -- np.empty, np.empty_like,
# np.ndarray(shape), np.ma.masked_all[_like], as_strided; in Cython also malloc & co and C stack
# arrays -- is a site.  For each site the statements that follow the allocation in straight-line
# order are walked until one of the recognised completions is found:
#
#   fill    a.fill(v)
#   full    a[:] = e   /  a[...] = e   (also a[:, :] etc.)
#   enum    for i, x in enumerate(S): a[i] = e       with a = np.empty(len(S) | (len(S), ..))
#           for i in range(E): a[i] = e              with a = np.empty(E | (E, ..))
#   tile    start = 0; for ..: end = start + E; a[start:end] = e; start = end;  assert end == len(a)
#   recv    comm.Bcast(a, root=R) where the allocation sits in the branch `rank != R`;
#           comm.Recv(a, ..); comm.Allgather[v]/Allreduce/Alltoall[v](send, a)
#
# Statements in between may not mention the buffer except for its metadata (a.shape, a.dtype,
# a.ndim, a.size, len(a)); the stored expressions may not mention it at all.  Anything else --
# the buffer read, passed on, returned, aliased, captured, or never completed -- is a
# TranslatorReject naming the site.  Each accepted site becomes an obligation in Gen/AllocSites.v,
# closed by Proof/AllocProofs.v:write_before_read and the covering lemma of its pattern.
UNINIT_ATTRS = {"empty", "empty_like", "masked_all", "masked_all_like", "as_strided"}
UNINIT_TEXT_RE = re.compile(r"(?<![\w.])((?:[A-Za-z_]\w*\.)*)(empty_like|empty|ndarray|masked_all_like|masked_all|as_strided)\s*\(")
C_ALLOC_RE = re.compile(r"(?<![\w.])(malloc|realloc|PyMem_Malloc|PyMem_Realloc|PyMem_RawMalloc|PyArray_EMPTY|PyArray_SimpleNew|alloca)\s*\(")
C_STACK_ARRAY_RE = re.compile(r"^\s*cdef\s+[\w. ]+?\s+\w+\s*\[[^\]:]+\]\s*$", re.M)
META_ATTRS = {"shape", "dtype", "ndim", "size", "nbytes", "itemsize", "strides"}
RECV_ARG0 = {"Recv"}
RECV_ARG1 = {"Allgather", "Allgatherv", "Allreduce", "Alltoall", "Alltoallv", "Scan", "Exscan"}


def _numpy_aliases(tree):
    """names under which the numpy module, resp. its uninitialising allocators, are visible"""
    mods, funcs = set(NP_NAMES), {}
    for n in ast.walk(tree):
        if isinstance(n, ast.Import):
            for al in n.names:
                if al.name == "numpy" or al.name.startswith("numpy."):
                    mods.add(al.asname or al.name.split(".")[0])
        elif isinstance(n, ast.ImportFrom) and n.module and n.module.split(".")[0] == "numpy":
            for al in n.names:
                if al.name == "*":
                    raise TranslatorReject("`from %s import *` hides which allocators are in scope" % n.module)
                if al.name in UNINIT_ATTRS or al.name == "ndarray":
                    funcs[al.asname or al.name] = al.name
    return mods, funcs


def _root_name(node):
    while isinstance(node, ast.Attribute):
        node = node.value
    return node.id if isinstance(node, ast.Name) else None


def _uninit_kind(call, mods, funcs):
    """-> allocator name if `call` allocates uninitialised cells, else None"""
    f = call.func
    if isinstance(f, ast.Name) and f.id in funcs:
        return funcs[f.id]
    if isinstance(f, ast.Attribute):
        if f.attr in UNINIT_ATTRS and (call.args or call.keywords):
            return f.attr                      # whatever it hangs off (np, np.ma, stride_tricks, an alias): fail closed
        if f.attr == "ndarray" and _root_name(f) in mods:
            return "ndarray"
    return None


def _mentions_name(node, name):
    return any(isinstance(n, ast.Name) and n.id == name for n in ast.walk(node))


def _only_metadata(stmt, name):
    """every mention of `name` in stmt is name.shape / name.dtype / ... or len(name), read-only"""
    parents = {}
    for n in ast.walk(stmt):
        for ch in ast.iter_child_nodes(n):
            parents[id(ch)] = n
    for n in ast.walk(stmt):
        if isinstance(n, ast.Name) and n.id == name:
            if not isinstance(n.ctx, ast.Load):
                return False
            par = parents.get(id(n))
            if isinstance(par, ast.Attribute) and par.attr in META_ATTRS and isinstance(par.ctx, ast.Load):
                continue
            if (isinstance(par, ast.Call) and isinstance(par.func, ast.Name) and par.func.id == "len"
                    and len(par.args) == 1 and par.args[0] is n and not par.keywords):
                continue
            return False
    return True


def _is_full_index(sl):
    def full(x):
        return ((isinstance(x, ast.Slice) and x.lower is None and x.upper is None and x.step is None)
                or (isinstance(x, ast.Constant) and x.value is Ellipsis))
    if full(sl):
        return True
    return isinstance(sl, ast.Tuple) and len(sl.elts) > 0 and all(full(e) for e in sl.elts)


def _stores_of(node, names):
    return [n for n in ast.walk(node) if isinstance(n, ast.Name) and n.id in names and isinstance(n.ctx, (ast.Store, ast.Del))]


def _has_jump(loop):
    for st in loop.body:
        for n in ast.walk(st):
            if isinstance(n, (ast.Break, ast.Continue, ast.Return, ast.Yield, ast.YieldFrom)):
                return True
    return False


def _leading_dim(call, kind):
    """text of the length of the leading axis of the allocated buffer, or None"""
    if kind in ("empty", "ndarray"):
        shp = call.args[0] if call.args else next((k.value for k in call.keywords if k.arg == "shape"), None)
        if shp is None:
            return None
        if isinstance(shp, ast.Tuple):
            return ast.unparse(shp.elts[0]) if shp.elts else None
        if isinstance(shp, ast.BinOp) and isinstance(shp.op, ast.Add) and isinstance(shp.left, ast.Tuple) and shp.left.elts:
            return ast.unparse(shp.left.elts[0])          # (n,) + rest
        return ast.unparse(shp)
    if kind == "empty_like":
        proto = call.args[0] if call.args else None
        return "len(%s)" % ast.unparse(proto) if proto is not None else None
    return None


def _block_index(fn):
    """id(stmt) -> (parent node, field name, list, index) for every statement of fn"""
    idx = {}
    def visit(node):
        for field in ("body", "orelse", "finalbody"):
            blk = getattr(node, field, None)
            if isinstance(blk, list):
                for i, st in enumerate(blk):
                    if isinstance(st, ast.stmt):
                        idx[id(st)] = (node, field, blk, i)
                        visit(st)
        for h in getattr(node, "handlers", []) or []:
            visit(h)
    visit(fn)
    return idx


def _continuation(stmt, bidx):
    """statements executed after `stmt` in straight-line order: the rest of its block, then -- while the
    enclosing statement is an if/with -- the rest of that one's block."""
    out = []
    cur = stmt
    while True:
        parent, field, blk, i = bidx[id(cur)]
        out += blk[i + 1:]
        if isinstance(parent, (ast.If, ast.With)) and id(parent) in bidx:
            cur = parent
            continue
        return out


class AllocSite:
    def __init__(self, **kw):
        self.__dict__.update(kw)


def _reject_site(rel, call, fname, text, why):
    raise TranslatorReject("%s:%d %s: allocation without initialisation `%s`: %s" % (rel, call.lineno, fname, text, why))


def _try_enum_loop(loop, name, lead):
    """for i, x in enumerate(S): a[i] = e  /  for i in range(E): a[i] = e ; -> (description, size text) or None"""
    if loop.orelse or _has_jump(loop) or not isinstance(loop.iter, ast.Call) or not isinstance(loop.iter.func, ast.Name):
        return None
    it = loop.iter
    if it.keywords or len(it.args) != 1:
        return None
    if it.func.id == "enumerate" and isinstance(loop.target, ast.Tuple) and len(loop.target.elts) == 2 \
            and isinstance(loop.target.elts[0], ast.Name):
        ivar, size = loop.target.elts[0].id, "len(%s)" % ast.unparse(it.args[0])
    elif it.func.id == "range" and isinstance(loop.target, ast.Name):
        ivar, size = loop.target.id, ast.unparse(it.args[0])
    else:
        return None
    if size != lead:
        return None
    if any(n for st in loop.body for n in _stores_of(st, {ivar})):
        return None
    store = None
    for st in loop.body:
        if not _mentions_name(st, name) or _only_metadata(st, name):
            continue
        if store is not None or not isinstance(st, ast.Assign) or len(st.targets) != 1:
            return None
        t = st.targets[0]
        if not (isinstance(t, ast.Subscript) and isinstance(t.value, ast.Name) and t.value.id == name):
            return None
        sl = t.slice
        ok = (isinstance(sl, ast.Name) and sl.id == ivar) or (
            isinstance(sl, ast.Tuple) and len(sl.elts) >= 2 and isinstance(sl.elts[0], ast.Name)
            and sl.elts[0].id == ivar and _is_full_index(ast.Tuple(elts=sl.elts[1:], ctx=ast.Load())))
        if not ok or _mentions_name(st.value, name):
            return None
        store = st
    if store is None:
        return None
    return ("every index of the leading axis stored by the loop at line %d (`%s`, %s over %s)"
            % (loop.lineno, " ".join(ast.unparse(store).split()), ivar, size)), size


def _try_tile_loop(loop, name, before, after):
    """start = 0; for ..: hi = lo + E; a[lo:hi] = e; lo = hi;  then  assert hi == len(a)"""
    if loop.orelse or _has_jump(loop):
        return None
    store = None
    for k, st in enumerate(loop.body):
        if not _mentions_name(st, name) or _only_metadata(st, name):
            continue
        if store is not None or not isinstance(st, ast.Assign) or len(st.targets) != 1:
            return None
        t = st.targets[0]
        if not (isinstance(t, ast.Subscript) and isinstance(t.value, ast.Name) and t.value.id == name):
            return None
        sl = t.slice
        if isinstance(sl, ast.Tuple) and len(sl.elts) >= 2 and _is_full_index(ast.Tuple(elts=sl.elts[1:], ctx=ast.Load())):
            sl = sl.elts[0]
        if not (isinstance(sl, ast.Slice) and sl.step is None and isinstance(sl.lower, ast.Name) and isinstance(sl.upper, ast.Name)):
            return None
        if _mentions_name(st.value, name):
            return None
        store = (k, st, sl.lower.id, sl.upper.id)
    if store is None:
        return None
    k, st, lo, hi = store
    if lo == hi or _stores_of(loop.target, {lo, hi}):
        return None
    # hi = lo + E before the store, lo = hi after it, both unconditional; no other binding of either in the loop
    def is_hi_def(s):
        return (isinstance(s, ast.Assign) and len(s.targets) == 1 and isinstance(s.targets[0], ast.Name)
                and s.targets[0].id == hi and isinstance(s.value, ast.BinOp) and isinstance(s.value.op, ast.Add)
                and isinstance(s.value.left, ast.Name) and s.value.left.id == lo)
    def is_lo_step(s):
        return (isinstance(s, ast.Assign) and len(s.targets) == 1 and isinstance(s.targets[0], ast.Name)
                and s.targets[0].id == lo and isinstance(s.value, ast.Name) and s.value.id == hi)
    his = [j for j, s in enumerate(loop.body) if is_hi_def(s)]
    los = [j for j, s in enumerate(loop.body) if is_lo_step(s)]
    if len(his) != 1 or len(los) != 1 or not (his[0] < k < los[0]):
        return None
    if len([n for s in loop.body for n in _stores_of(s, {lo, hi})]) != 2:
        return None
    # the cursor starts at 0: last statement binding `lo` before the loop, among the straight-line predecessors
    init = [s for s in before if _stores_of(s, {lo})]
    if not init:
        return None
    s0 = init[-1]
    if not (isinstance(s0, ast.Assign) and len(s0.targets) == 1 and isinstance(s0.targets[0], ast.Name)
            and isinstance(s0.value, ast.Constant) and s0.value.value == 0 and type(s0.value.value) is int):
        return None
    # closing assertion: the first later statement that mentions the buffer, nothing rebinding hi before it
    for s in after:
        if isinstance(s, ast.Assert) and isinstance(s.test, ast.Compare) and len(s.test.ops) == 1 \
                and isinstance(s.test.ops[0], ast.Eq):
            sides = [ast.unparse(s.test.left), ast.unparse(s.test.comparators[0])]
            if hi in sides and ("len(%s)" % name in sides or "%s.shape[0]" % name in sides):
                return ("cursor loop at line %d (`%s = %s + ..; %s; %s = %s`, %s = 0 at line %d) closed by `%s` at line %d"
                        % (loop.lineno, hi, lo, " ".join(ast.unparse(st).split()), lo, hi, lo, s0.lineno,
                           " ".join(ast.unparse(s).split()), s.lineno))
        if _stores_of(s, {hi, lo}):
            return None
        if _mentions_name(s, name) and not _only_metadata(s, name):
            return None
    return None


def _try_collective(stmt, name, alloc_stmt, bidx):
    if not (isinstance(stmt, ast.Expr) and isinstance(stmt.value, ast.Call) and isinstance(stmt.value.func, ast.Attribute)):
        return None
    call = stmt.value
    op = call.func.attr
    if not re.search(r"(?i)comm", ast.unparse(call.func.value)):
        return None
    kw = {k.arg: k.value for k in call.keywords if k.arg}

    def is_buf(node):
        if isinstance(node, ast.Name) and node.id == name:
            return True
        return (isinstance(node, (ast.List, ast.Tuple)) and node.elts and isinstance(node.elts[0], ast.Name)
                and node.elts[0].id == name and not any(_mentions_name(e, name) for e in node.elts[1:]))
    others = lambda skip: not any(_mentions_name(a, name) for a in list(call.args) + list(kw.values()) if a is not skip)
    if op == "Bcast":
        buf = call.args[0] if call.args else kw.get("buf")
        root = kw.get("root", call.args[1] if len(call.args) > 1 else None)
        if buf is None or root is None or not is_buf(buf) or not others(buf):
            return None
        parent, field, _blk, _i = bidx[id(alloc_stmt)]
        if not (isinstance(parent, ast.If) and isinstance(parent.test, ast.Compare) and len(parent.test.ops) == 1):
            return None
        cmpop = parent.test.ops[0]
        sides = [ast.unparse(parent.test.left), ast.unparse(parent.test.comparators[0])]
        r = ast.unparse(root)
        if r not in sides:
            return None
        other = sides[1 - sides.index(r)]
        if not re.search(r"(?i)rank", other):
            return None
        nonroot = (isinstance(cmpop, ast.Eq) and field == "orelse") or (isinstance(cmpop, ast.NotEq) and field == "body")
        if not nonroot:
            return None
        return "receive buffer of `%s` at line %d on the ranks with %s != %s" % (
            " ".join(ast.unparse(call).split()), stmt.lineno, other, r)
    if op in RECV_ARG0:
        buf = call.args[0] if call.args else kw.get("buf")
    elif op in RECV_ARG1:
        buf = call.args[1] if len(call.args) > 1 else kw.get("recvbuf")
    else:
        return None
    if buf is None or not is_buf(buf) or not others(buf):
        return None
    return "receive buffer of `%s` at line %d" % (" ".join(ast.unparse(call).split()), stmt.lineno)


def classify_alloc(call, kind, rel, fn, stmt_of, bidx):
    text = " ".join(ast.unparse(call).split())
    fname = fn.name if fn is not None else "<module>"
    if fn is None:
        _reject_site(rel, call, fname, text, "at module level (lives for the whole process)")
    if kind in ("masked_all", "masked_all_like", "as_strided"):
        _reject_site(rel, call, fname, text, "np.%s gives access to cells nobody wrote; no completion pattern is recognised for it" % kind)
    st = stmt_of.get(id(call))
    if not (isinstance(st, ast.Assign) and st.value is call and len(st.targets) == 1 and isinstance(st.targets[0], ast.Name)):
        _reject_site(rel, call, fname, text, "the buffer is not bound to a plain local name by `name = <allocation>` "
                     "(it is returned, passed on, stored in an attribute or part of a larger expression)")
    name = st.targets[0].id
    for n in ast.walk(fn):
        if isinstance(n, (ast.Global, ast.Nonlocal)) and name in n.names:
            _reject_site(rel, call, fname, text, "`%s` is declared global/nonlocal" % name)
    lead = _leading_dim(call, kind)
    cont = _continuation(st, bidx)
    skipped = []
    for j, t in enumerate(cont):
        if not _mentions_name(t, name):
            skipped.append(t)
            continue
        if _only_metadata(t, name) and not isinstance(t, (ast.For, ast.While)):
            skipped.append(t)
            continue
        base = dict(rel=rel, line=call.lineno, func=fname, text=text, name=name, kind=kind, done_line=t.lineno)
        # a.fill(v)
        if (isinstance(t, ast.Expr) and isinstance(t.value, ast.Call) and isinstance(t.value.func, ast.Attribute)
                and t.value.func.attr == "fill" and isinstance(t.value.func.value, ast.Name)
                and t.value.func.value.id == name and len(t.value.args) == 1 and not t.value.keywords
                and not _mentions_name(t.value.args[0], name)):
            return AllocSite(pattern="fill", how="`%s` at line %d" % (" ".join(ast.unparse(t).split()), t.lineno), **base)
        # a[:] = e
        if (isinstance(t, ast.Assign) and len(t.targets) == 1 and isinstance(t.targets[0], ast.Subscript)
                and isinstance(t.targets[0].value, ast.Name) and t.targets[0].value.id == name
                and _is_full_index(t.targets[0].slice) and not _mentions_name(t.value, name)):
            return AllocSite(pattern="full", how="`%s` at line %d" % (" ".join(ast.unparse(t).split())[:100], t.lineno), **base)
        if isinstance(t, ast.For):
            if lead is not None:
                # nothing between the allocation and the loop may touch what the size is computed from
                size_names = {n.id for n in ast.walk(ast.parse(lead, mode="eval")) if isinstance(n, ast.Name)} - {"len"}
                clean = not any(_mentions_name(s, v) for s in skipped for v in size_names)
                r = _try_enum_loop(t, name, lead) if clean else None
                if r is not None:
                    return AllocSite(pattern="enum", how=r[0], **base)
            r = _try_tile_loop(t, name, skipped, cont[j + 1:])
            if r is not None:
                return AllocSite(pattern="tile", how=r, **base)
        r = _try_collective(t, name, st, bidx)
        if r is not None:
            return AllocSite(pattern="recv", how=r, **base)
        _reject_site(rel, call, fname, text,
                     "`%s` is used at line %d (`%s`) before every element has provably been written; recognised completions: "
                     "a.fill(v), a[:] = e, an enumerate/range loop storing every index, a cursor loop closed by an assertion, "
                     "the receive buffer of a collective" % (name, t.lineno, " ".join(ast.unparse(t).split())[:90]))
    _reject_site(rel, call, fname, text, "`%s` is never completed on the straight-line path after the allocation" % name)


def scan_allocs_py(repo, rel):
    p = os.path.join(repo, rel)
    try:
        with open(p, encoding="utf-8") as f:
            src = f.read()
        tree = ast.parse(src)
    except (OSError, SyntaxError, UnicodeDecodeError) as ex:
        raise TranslatorReject("%s: cannot parse: %s" % (rel, ex))
    try:
        mods, funcs = _numpy_aliases(tree)
    except TranslatorReject as ex:
        raise TranslatorReject("%s: %s" % (rel, ex))
    found = []

    def visit(node, fn, stmt):
        for ch in ast.iter_child_nodes(node):
            nfn = ch if isinstance(ch, (ast.FunctionDef, ast.AsyncFunctionDef)) else fn
            nst = ch if isinstance(ch, ast.stmt) else stmt
            if isinstance(ch, ast.Call):
                k = _uninit_kind(ch, mods, funcs)
                if k is not None:
                    found.append((ch, k, fn, nst))
            visit(ch, nfn, nst)
    visit(tree, None, None)
    sites = []
    bcache = {}
    for call, k, fn, st in found:
        if fn is not None and id(fn) not in bcache:
            bcache[id(fn)] = _block_index(fn)
        sites.append(classify_alloc(call, k, rel, fn, {id(call): st}, bcache.get(id(fn), {})))
    # cross-check with the text: every allocator token must be one of the classified calls
    blank = blank_comments_and_strings(src)
    lines_ok = {c.lineno for c, _k, _f, _s in found}
    for m in UNINIT_TEXT_RE.finditer(blank):
        line = blank.count("\n", 0, m.start()) + 1
        prefix, nm = m.group(1), m.group(2)
        if nm == "ndarray" and prefix.split(".")[0] not in mods and nm not in funcs:
            continue
        if nm != "ndarray" and prefix == "" and nm not in funcs:
            # a bare name that is not numpy's (a local function called empty(...)): only if it is defined here
            if any(isinstance(n, (ast.FunctionDef, ast.ClassDef)) and n.name == nm for n in ast.walk(tree)):
                continue
        if line not in lines_ok:
            raise TranslatorReject("%s:%d: `%s%s(` looks like an allocation without initialisation but is not a call the "
                                   "scanner classified" % (rel, line, prefix, nm))
    sites.sort(key=lambda s: s.line)
    return sites


def scan_allocs_pyx(repo, rel):
    """Cython: names and control flow are not analysed, so any uninitialising allocation is rejected."""
    with open(os.path.join(repo, rel), encoding="utf-8") as f:
        blank = blank_comments_and_strings(f.read())
    for rx, what in ((UNINIT_TEXT_RE, "allocation without initialisation"), (C_ALLOC_RE, "C allocation without initialisation"),
                     (C_STACK_ARRAY_RE, "C stack array (uninitialised)")):
        for m in rx.finditer(blank):
            tok = m.group(0).strip()
            if rx is UNINIT_TEXT_RE and m.group(2) == "ndarray" and not m.group(1):
                continue
            raise TranslatorReject("%s:%d: %s `%s` in a Cython source: write-before-read cannot be established there"
                                   % (rel, blank.count("\n", 0, m.start()) + 1, what, tok[:60]))
    return []


# ----------------------------------------------------------------------------- result caches
CACHE_DECOS = {"lru_cache", "cache", "cached_property", "memoize", "memoized", "memoise", "cached", "cachedmethod"}
CACHE_WORD_RE = re.compile(r"(?i)(?:^|_)(cache|cached|memo|memoize|memoized|memoise)(?:_|$)")
MUTABLE_CTORS = {"dict", "list", "defaultdict", "OrderedDict", "WeakValueDictionary", "WeakKeyDictionary", "Counter", "deque"}


def scan_caches_py(repo, rel):
    """-> list of accepted process-pool globals [(rel, line, func, name)]; rejects every memo idiom by name"""
    with open(os.path.join(repo, rel), encoding="utf-8") as f:
        src = f.read()
    tree = ast.parse(src)
    shadow_id = any(isinstance(n, (ast.FunctionDef, ast.ClassDef)) and n.name == "id" for n in ast.walk(tree))

    def rej(line, who, what):
        raise TranslatorReject("%s:%d %s: %s -- results could depend on what the process computed beforehand" % (rel, line, who, what))

    funcs = [n for n in ast.walk(tree) if isinstance(n, (ast.FunctionDef, ast.AsyncFunctionDef))]
    owner = {}
    for fn in funcs:
        for n in ast.walk(fn):
            owner.setdefault(id(n), fn)          # outermost first is fine for naming
    for fn in funcs:
        for d in fn.decorator_list:
            core = d.func if isinstance(d, ast.Call) else d
            nm = core.attr if isinstance(core, ast.Attribute) else (core.id if isinstance(core, ast.Name) else None)
            if nm in CACHE_DECOS:
                rej(fn.lineno, fn.name, "decorated with @%s (a result cache keyed on argument identity/hash)" % ast.unparse(d))
        # mutable default used as a memo
        for a, dflt in zip(reversed(fn.args.args), reversed(fn.args.defaults)):
            if isinstance(dflt, (ast.Dict, ast.List, ast.Set)) or (
                    isinstance(dflt, ast.Call) and isinstance(dflt.func, ast.Name) and dflt.func.id in MUTABLE_CTORS):
                for n in ast.walk(fn):
                    if (isinstance(n, ast.Subscript) and isinstance(n.value, ast.Name) and n.value.id == a.arg
                            and isinstance(n.ctx, ast.Store)) or (
                            isinstance(n, ast.Call) and isinstance(n.func, ast.Attribute) and isinstance(n.func.value, ast.Name)
                            and n.func.value.id == a.arg and n.func.attr in ("setdefault", "update", "append", "add")):
                        rej(fn.lineno, fn.name, "mutable default argument `%s` is stored into (a memo that survives the call)" % a.arg)
    for n in ast.walk(tree):
        if isinstance(n, ast.Call) and isinstance(n.func, ast.Name) and n.func.id == "id" and not shadow_id:
            fn = owner.get(id(n))
            rej(n.lineno, fn.name if fn else "<module>", "`%s`: object identity used as a value (cache key)" % ast.unparse(n))
        ident = n.id if isinstance(n, ast.Name) else (n.attr if isinstance(n, ast.Attribute) else (
            n.name if isinstance(n, (ast.FunctionDef, ast.ClassDef)) else (n.arg if isinstance(n, ast.arg) else None)))
        if ident and CACHE_WORD_RE.search(ident):
            fn = owner.get(id(n))
            rej(getattr(n, "lineno", 0), fn.name if fn else "<module>", "identifier `%s` names a cache/memo" % ident)
    # module-level mutable containers written from inside functions (dict/list memo); sets cannot hold arrays
    modlevel = {}
    for st in tree.body:
        if isinstance(st, ast.Assign) and len(st.targets) == 1 and isinstance(st.targets[0], ast.Name):
            v = st.value
            if isinstance(v, (ast.Dict, ast.List, ast.ListComp, ast.DictComp)) or (
                    isinstance(v, ast.Call) and isinstance(v.func, (ast.Name, ast.Attribute))
                    and (v.func.id if isinstance(v.func, ast.Name) else v.func.attr) in MUTABLE_CTORS):
                modlevel[st.targets[0].id] = st.lineno
    for fn in funcs:
        local = {a.arg for a in fn.args.args + fn.args.kwonlyargs} | {
            n.id for n in ast.walk(fn) if isinstance(n, ast.Name) and isinstance(n.ctx, ast.Store)}
        for n in ast.walk(fn):
            tgt = None
            if isinstance(n, ast.Subscript) and isinstance(n.ctx, (ast.Store, ast.Del)) and isinstance(n.value, ast.Name):
                tgt = n.value.id
            elif (isinstance(n, ast.Call) and isinstance(n.func, ast.Attribute) and isinstance(n.func.value, ast.Name)
                  and n.func.attr in ("setdefault", "update", "append", "extend", "insert", "pop", "popitem", "clear", "appendleft")):
                tgt = n.func.value.id
            if tgt in modlevel and tgt not in local:
                rej(n.lineno, fn.name, "module-level container `%s` (line %d) is modified from inside a function: state that "
                    "outlives the call" % (tgt, modlevel[tgt]))
    # `global X`: only the process-pool initialiser idiom is accepted
    pool_inits = set()
    for n in ast.walk(tree):
        if isinstance(n, ast.Call):
            for k in n.keywords:
                if k.arg == "initializer" and isinstance(k.value, ast.Name):
                    pool_inits.add(k.value.id)
    accepted = []
    for fn in funcs:
        for st in ast.walk(fn):
            if not isinstance(st, ast.Global) or owner.get(id(st)) is not fn and st not in fn.body:
                continue
            if st not in fn.body:
                continue
            params = {a.arg for a in fn.args.args}
            ok = fn.name in pool_inits
            for b in fn.body:
                if isinstance(b, ast.Global) or (isinstance(b, ast.Expr) and isinstance(b.value, ast.Constant)):
                    continue
                if isinstance(b, ast.Return) and b.value is None:
                    continue
                if (isinstance(b, ast.Assign) and len(b.targets) == 1 and isinstance(b.targets[0], ast.Name)
                        and b.targets[0].id in st.names):
                    free = {x.id for x in ast.walk(b.value) if isinstance(x, ast.Name)} - params - NP_NAMES
                    if not free:
                        continue
                ok = False
            if not ok:
                rej(st.lineno, fn.name, "`global %s` outside the process-pool initialiser idiom (a function passed as "
                    "initializer= whose whole body is `global X; X = <its parameter>`)" % ", ".join(st.names))
            for nm in st.names:
                accepted.append((rel, st.lineno, fn.name, nm))
    return accepted


CACHE_TEXT_RE = re.compile(r"(?<![\w.])(lru_cache|global\s+\w+|id\s*\()|(?i:(?<![A-Za-z])(?:cache|memo)(?![A-Za-z]))")


def scan_caches_pyx(repo, rel):
    with open(os.path.join(repo, rel), encoding="utf-8") as f:
        blank = blank_comments_and_strings(f.read())
    for m in CACHE_TEXT_RE.finditer(blank):
        raise TranslatorReject("%s:%d: `%s` in a Cython source (cache / process-wide state idiom)"
                               % (rel, blank.count("\n", 0, m.start()) + 1, m.group(0).strip()))
    return []


def scan_allocs(repo):
    files = source_files(repo)
    sites, pool_globals = [], []
    for rel in files:
        if rel.endswith(".pyx"):
            sites += scan_allocs_pyx(repo, rel)
            pool_globals += scan_caches_pyx(repo, rel)
        else:
            sites += scan_allocs_py(repo, rel)
            pool_globals += scan_caches_py(repo, rel)
    return files, sites, pool_globals


def alloc_summary(s):
    return {"file": s.rel, "line": s.line, "func": s.func, "call": s.text, "name": s.name, "pattern": s.pattern, "how": s.how}


PATTERNS = {
    # pattern -> (binders, program, number of cells, covering lemma, note)
    "fill": ("(n : nat) (v : A)", "[WFill v]", "n", "fill_covers", "a.fill(v)"),
    "full": ("(src : list A)", "[WAll src]", "length src", "full_assign_covers",
             "a[:] = src (src broadcast to the buffer's shape; NumPy raises on any other shape)"),
    "recv": ("(msg : list A)", "[WAll msg]", "length msg", "full_assign_covers",
             "the message fills the receive buffer (MPI semantics: trusted)"),
    "enum": ("(vals : list A)", "enum_prog vals", "length vals", "enum_covers", "a[i] = vals[i] for every i"),
    "tile": ("(segs : list (list A))", "tile_prog 0 segs", "length (concat segs)", "tile_covers",
             "consecutive slices from 0; the closing assertion is the shape equation"),
}


def emit_allocs(repo):
    files, sites, pool_globals = scan_allocs(repo)
    L = ["(* GENERATED by translator/sites.py (second scan) -- do not edit.",
         "   Scanned %d source files under enspara/ (enspara/test excluded; %d .pyx): %d allocations without" % (
             len(files), sum(1 for f in files if f.endswith(".pyx")), len(sites)),
         "   initialisation (np.empty / np.empty_like / np.ndarray(shape) ...), one obligation each;",
         "   0 result-cache idioms (lru_cache, id() keys, memo containers); %d process-pool initialiser globals. *)" % len(pool_globals),
         "From Coq Require Import List Bool Arith.", "From EV Require Import Alloc AllocProofs.",
         "Import ListNotations.", ""]
    for rel, line, fn, nm in pool_globals:
        L.append("(* process-pool global: %s:%d %s  `global %s` -- set once per worker process by the pool initialiser from the "
                 "arguments of the call that created the pool *)" % (rel, line, fn, nm))
    L.append("")
    used = set()
    for k, s in enumerate(sites, 1):
        nm = "alloc_" + _ident(s.rel, s.line)[len("site_"):]
        while nm in used:
            nm += "_b"
        used.add(nm)
        s.ident = nm
        binders, prog, ncells, lemma, note = PATTERNS[s.pattern]
        argl = " ".join(re.findall(r"\((\w+) :", binders))
        L.append("(* allocation site %d/%d  %s:%d  in %s" % (k, len(sites), s.rel, s.line, s.func))
        L.append("     %s = %s" % (s.name, _cmt(s.text)))
        L.append("     completed [%s] by %s" % (s.pattern, _cmt(s.how)))
        L.append("     model: %s *)" % _cmt(note))
        L.append("Definition %s (A : Type) %s (junk : list A) : list A :=\n  run (%s) junk." % (nm, binders, prog))
        L.append("Definition %s_stmt : Prop :=\n  forall (A : Type) %s (junk1 junk2 : list A),\n"
                 "    length junk1 = %s -> length junk2 = %s ->\n    %s A %s junk1 = %s A %s junk2."
                 % (nm, binders, ncells, ncells, nm, argl, nm, argl))
        L.append("Lemma %s_heap_independent : %s_stmt.\nProof.\n  unfold %s_stmt, %s. intros.\n"
                 "  apply (write_before_read A _ (%s)); [assumption|assumption|apply %s].\nQed."
                 % (nm, nm, nm, nm, ncells, lemma))
        if s.pattern == "tile":
            L.append("Lemma %s_is_concatenation :\n  forall (A : Type) %s (junk : list A),\n"
                     "    length junk = %s -> %s A %s junk = concat segs.\nProof. intros. unfold %s. apply tile_result; assumption. Qed."
                     % (nm, binders, ncells, nm, argl, nm))
        L.append("")
    L.append("Definition n_alloc_sites : nat := %d." % len(sites))
    L.append("Definition alloc_site_lines : list nat := [%s]." % "; ".join(str(s.line) for s in sites))
    L.append("Definition n_pool_globals : nat := %d." % len(pool_globals))
    L.append("Definition n_cache_idioms : nat := 0.")
    L.append("Definition n_alloc_scanned_files : nat := %d." % len(files))
    L.append("")
    conj, proof = "True", "I"
    for s in reversed(sites):
        conj = "%s_stmt /\\ (%s)" % (s.ident, conj)
        proof = "(conj %s_heap_independent %s)" % (s.ident, proof)
    L.append("(* every allocation without initialisation in the tree: what is read afterwards does not depend on the heap *)")
    L.append("Definition all_alloc_sites_statement : Prop :=\n  %s." % conj)
    L.append("Lemma all_alloc_sites_heap_independent : all_alloc_sites_statement.\nProof. exact %s. Qed." % proof)
    L.append("")
    return "\n".join(L), files, sites, pool_globals


def translate(repo):
    text, _, _ = emit(repo)
    atext, _, _, _ = emit_allocs(repo)
    return {"Gen/MaskedSites.v": text, "Gen/AllocSites.v": atext}


if __name__ == "__main__":
    repo = sys.argv[1] if len(sys.argv) > 1 else "/repo"
    text, files, sites = emit(repo)
    if "--print" in sys.argv:
        print(text)
    elif "--print-allocs" in sys.argv:
        print(emit_allocs(repo)[0])
    else:
        _t, _f, asites, pg = emit_allocs(repo)
        for a in asites:
            print(alloc_summary(a))
        print("pool globals:", pg)
        for s in sites:
            print(site_summary(s))
        print(len(files), "files")
