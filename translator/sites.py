"""Whole-tree scan for masked element-wise operations (property C19).

Every .py and .pyx under <repo>/enspara (enspara/test excepted) is searched for calls carrying a
`where=` keyword.  Each such call is classified, fail-closed:

  * where= is a string constant            -> not a mask (PyTables node path `where='/'`); listed only
  * callee is a NumPy reduction            -> where= selects the reduced elements, no output cell is
                                              left unwritten; listed only
  * callee is a NumPy ufunc (table below)  -> MASKED SITE: instantiate Model/Masked.v
  * anything else                          -> TranslatorReject naming the call

For a masked site the initial content of the output buffer is
  * `filled fill n`      when out= is np.zeros/zeros_like/ones/ones_like/full/full_like(...) inline,
                         or a local name all of whose bindings in the enclosing function are such
                         allocations and that is not mentioned between its allocation and the call;
  * the result of the previous site writing the same name, when the only mentions in between are
    earlier sites with out=<name> (the buffer then holds that site's result);
  * an opaque initialised buffer `buf` when the name is a recognised allocation with other
    stores in between (every cell written by the allocation, later stores are the program's own);
  * `junk` -- the universally quantified heap content -- when out= is absent or anything else.
The emitted obligation `forall junk1 junk2, site .. junk1 = site .. junk2` is closed by
`reflexivity`, which cannot succeed for the last form: Gen/MaskedSites.v then does not compile and
the check reports the site.  Emits Gen/MaskedSites.v.
"""
import ast, os, re, sys

sys.path.insert(0, os.path.join(os.path.dirname(os.path.dirname(os.path.abspath(__file__))), "harness"))
from core import TranslatorReject

NP_NAMES = {"np", "numpy"}
UNARY = {"log", "log2", "log10", "log1p", "exp", "exp2", "expm1", "sqrt", "cbrt", "square", "reciprocal",
         "negative", "positive", "absolute", "abs", "fabs", "sign", "sin", "cos", "tan", "arcsin", "arccos",
         "arctan", "sinh", "cosh", "tanh", "floor", "ceil", "rint", "trunc", "isnan", "isinf", "isfinite",
         "logical_not", "invert", "conjugate", "conj", "deg2rad", "rad2deg"}
BINARY = {"add", "subtract", "multiply", "divide", "true_divide", "floor_divide", "power", "float_power",
          "mod", "remainder", "fmod", "maximum", "minimum", "fmax", "fmin", "arctan2", "hypot",
          "logaddexp", "logaddexp2", "greater", "greater_equal", "less", "less_equal", "equal",
          "not_equal", "logical_and", "logical_or", "logical_xor", "bitwise_and", "bitwise_or",
          "bitwise_xor", "copysign", "nextafter", "ldexp", "heaviside"}
REDUCTIONS = {"sum", "prod", "any", "all", "mean", "std", "var", "min", "max", "amin", "amax",
              "nansum", "nanprod", "nanmean", "nanstd", "nanvar", "nanmin", "nanmax", "count_nonzero"}
ALLOC = {"zeros": 0, "zeros_like": 0, "ones": 1, "ones_like": 1, "full": None, "full_like": None}
UNINIT = {"empty", "empty_like", "ndarray"}

SKIP_DIRS = {os.path.join("enspara", "test")}


def source_files(repo):
    out = []
    root = os.path.join(repo, "enspara")
    if not os.path.isdir(root):
        raise TranslatorReject("no enspara package under %s" % repo)
    for d, dirs, files in os.walk(root):
        rel = os.path.relpath(d, repo)
        dirs[:] = sorted(x for x in dirs if os.path.join(rel, x) not in SKIP_DIRS and x != "__pycache__")
        for fn in sorted(files):
            if fn.endswith(".py") or fn.endswith(".pyx"):
                out.append(os.path.join(rel, fn))
    return out


# ----------------------------------------------------------------------------- text-level scan
def blank_comments_and_strings(src):
    """Same length, same line structure; comments and string literals replaced by blanks."""
    out = list(src)
    i, n = 0, len(src)
    while i < n:
        c = src[i]
        if c == "#":
            while i < n and src[i] != "\n":
                out[i] = " "
                i += 1
        elif c in "'\"":
            q = src[i:i + 3] if src[i:i + 3] in ("'''", '"""') else c
            j = i + len(q)
            while j < n:
                if src[j] == "\\":
                    j += 2
                    continue
                if src.startswith(q, j):
                    break
                if len(q) == 1 and src[j] == "\n":
                    break
                j += 1
            end = min(n, j + len(q))
            for k in range(i, end):
                if src[k] != "\n":
                    out[k] = " "
            i = end
        else:
            i += 1
    return "".join(out)


WHERE_RE = re.compile(r"(?<![\w.])where\s*=(?!=)")


def text_hits(src):
    """[(lineno, offset)] of `where=` tokens outside comments/strings."""
    blank = blank_comments_and_strings(src)
    return [(blank.count("\n", 0, m.start()) + 1, m.start()) for m in WHERE_RE.finditer(blank)], blank


def enclosing_call_text(src, blank, off):
    """Text `callee(...)` of the innermost parenthesis pair around offset `off`, or None."""
    depth, i = 0, off - 1
    while i >= 0:
        ch = blank[i]
        if ch in ")]}":
            depth += 1
        elif ch in "([{":
            if depth == 0:
                break
            depth -= 1
        i -= 1
    if i < 0 or blank[i] != "(":
        return None
    j = i - 1
    while j >= 0 and (blank[j].isalnum() or blank[j] in "_."):
        j -= 1
    start = j + 1
    depth, k = 0, i
    while k < len(blank):
        if blank[k] in "([{":
            depth += 1
        elif blank[k] in ")]}":
            depth -= 1
            if depth == 0:
                break
        k += 1
    if k >= len(blank) or start == i:
        return None
    return src[start:k + 1]


# ----------------------------------------------------------------------------- classification
class Site:
    def __init__(self, **kw):
        self.__dict__.update(kw)


def _np_attr(node):
    """np.X / numpy.X -> 'X' else None"""
    if isinstance(node, ast.Attribute) and isinstance(node.value, ast.Name) and node.value.id in NP_NAMES:
        return node.attr
    return None


def _alloc_of(expr):
    """expr is np.zeros(...)-like -> (text, fill) else None."""
    if isinstance(expr, ast.Call):
        a = _np_attr(expr.func)
        if a in ALLOC:
            return ast.unparse(expr), ALLOC[a]
    return None


def _bindings(fn, name):
    """All statements of function `fn` (nested functions excluded) that bind `name`:
    [(lineno, end_lineno, value-or-None)]; parameters are reported with value None at the def line."""
    res = []
    args = fn.args
    for a in list(args.posonlyargs) + list(args.args) + list(args.kwonlyargs) + \
            [x for x in (args.vararg, args.kwarg) if x is not None]:
        if a.arg == name:
            res.append((fn.lineno, fn.lineno, None))

    def targets_of(t):
        if isinstance(t, ast.Name):
            return [t.id]
        if isinstance(t, (ast.Tuple, ast.List)):
            return [x for e in t.elts for x in targets_of(e)]
        if isinstance(t, ast.Starred):
            return targets_of(t.value)
        return []

    def visit(node):
        for ch in ast.iter_child_nodes(node):
            if isinstance(ch, (ast.FunctionDef, ast.AsyncFunctionDef, ast.ClassDef, ast.Lambda)):
                if getattr(ch, "name", None) == name:
                    res.append((ch.lineno, ch.end_lineno, None))
                continue
            if isinstance(ch, ast.Assign):
                for t in ch.targets:
                    if isinstance(t, ast.Name) and t.id == name and len(ch.targets) == 1:
                        res.append((ch.lineno, ch.end_lineno, ch.value))
                    elif name in targets_of(t):
                        res.append((ch.lineno, ch.end_lineno, None))
            elif isinstance(ch, (ast.AugAssign, ast.AnnAssign)):
                if name in targets_of(ch.target):
                    res.append((ch.lineno, ch.end_lineno,
                                ch.value if isinstance(ch, ast.AnnAssign) and ch.value is not None else None))
            elif isinstance(ch, (ast.For, ast.AsyncFor)):
                if name in targets_of(ch.target):
                    res.append((ch.lineno, ch.lineno, None))
            elif isinstance(ch, (ast.With, ast.AsyncWith)):
                for it in ch.items:
                    if it.optional_vars is not None and name in targets_of(it.optional_vars):
                        res.append((ch.lineno, ch.lineno, None))
            elif isinstance(ch, (ast.Import, ast.ImportFrom)):
                for al in ch.names:
                    if (al.asname or al.name.split(".")[0]) == name:
                        res.append((ch.lineno, ch.lineno, None))
            elif isinstance(ch, (ast.Global, ast.Nonlocal)):
                if name in ch.names:
                    res.append((ch.lineno, ch.lineno, None))
            elif isinstance(ch, ast.NamedExpr):
                if name in targets_of(ch.target):
                    res.append((ch.lineno, ch.end_lineno, None))
            elif isinstance(ch, ast.ExceptHandler):
                if ch.name == name:
                    res.append((ch.lineno, ch.lineno, None))
            elif isinstance(ch, ast.Delete):
                for t in ch.targets:
                    if name in targets_of(t):
                        res.append((ch.lineno, ch.lineno, None))
            visit(ch)
    visit(fn)
    return sorted(res, key=lambda r: r[0])


def _mentions(fn, name, lo, hi):
    """ast.Name nodes `name` inside fn with lo < lineno < hi (exclusive)."""
    return [n for n in ast.walk(fn) if isinstance(n, ast.Name) and n.id == name and lo < n.lineno < hi]


def classify_call(call, rel, fn, src_lines):
    """-> Site or None (call does not carry where=)."""
    kw = {k.arg: k.value for k in call.keywords if k.arg is not None}
    if "where" not in kw:
        return None
    text = " ".join(ast.unparse(call).split())
    fname = fn.name if fn is not None else "<module>"
    base = dict(rel=rel, line=call.lineno, end_line=call.end_lineno, func=fname, text=text, call=call, fn=fn)
    w = kw["where"]
    if isinstance(w, ast.Constant) and isinstance(w.value, str):
        return Site(kind="path", why="where= is the string %r (node path), not a mask" % w.value, **base)
    a = _np_attr(call.func)
    if a in REDUCTIONS:
        return Site(kind="reduction", why="np.%s reduces over the selected elements; no output cell stays unwritten" % a,
                    **base)
    if a in UNARY or a in BINARY:
        arity = 1 if a in UNARY else 2
        pos = list(call.args)
        if any(isinstance(p, ast.Starred) for p in pos) or any(k.arg is None for k in call.keywords):
            raise TranslatorReject("%s:%d %s: masked call with */** arguments cannot be analysed: %s"
                                   % (rel, call.lineno, fname, text))
        out = kw.get("out")
        if len(pos) == arity + 1 and out is None:
            out = pos[-1]
            pos = pos[:-1]
        if len(pos) != arity:
            raise TranslatorReject("%s:%d %s: np.%s expects %d operand(s): %s" % (rel, call.lineno, fname, a, arity, text))
        if isinstance(out, ast.Tuple) and len(out.elts) == 1:
            out = out.elts[0]
        if isinstance(out, ast.Constant) and out.value is None:
            out = None
        return Site(kind="masked", ufunc=a, arity=arity, operands=[ast.unparse(p) for p in pos],
                    mask=ast.unparse(w), out=out, out_text=(ast.unparse(out) if out is not None else None), **base)
    raise TranslatorReject("%s:%d %s: call carrying where= whose callee is neither a recognised NumPy ufunc nor a "
                           "reduction: %s" % (rel, call.lineno, fname, text))


def resolve_inits(sites):
    """Decide the initial buffer of every masked site (sites of one file, in line order)."""
    by_fn = {}
    for s in sites:
        if s.kind == "masked":
            by_fn.setdefault(id(s.fn), []).append(s)
    for group in by_fn.values():
        group.sort(key=lambda s: (s.line, s.call.col_offset))
        for idx, s in enumerate(group):
            out = s.out
            if out is None:
                s.init, s.guard = ("junk",), "UNGUARDED: no out= (NumPy allocates an uninitialised result)"
                continue
            al = _alloc_of(out)
            if al is not None:
                s.init, s.guard = ("filled", al[1]), "out= allocated inline by %s" % al[0]
                continue
            if isinstance(out, ast.Name) and s.fn is not None:
                name = out.id
                binds = _bindings(s.fn, name)
                before = [b for b in binds if b[0] < s.line]
                bad = [b for b in binds if b[2] is None or _alloc_of(b[2]) is None]
                if not before or bad:
                    why = ("never bound before the call" if not before else
                           "bound at line %d to something other than np.zeros/zeros_like/ones/ones_like/full/full_like"
                           % bad[0][0])
                    s.init, s.guard = ("junk",), "UNGUARDED: out=%s, a name %s" % (name, why)
                    continue
                last = before[-1]
                al = _alloc_of(last[2])
                between = _mentions(s.fn, name, last[1], s.line)
                prev = [p for p in group[:idx] if isinstance(p.out, ast.Name) and p.out.id == name and p.line > last[1]]
                prev_nodes = set()
                for p in prev:
                    prev_nodes.update(id(n) for n in ast.walk(p.call))
                others = [n for n in between if id(n) not in prev_nodes]
                where_alloc = "allocated at line %d by %s" % (last[0], al[0])
                if not between:
                    s.init, s.guard = ("filled", al[1]), "out=%s, %s, first use" % (name, where_alloc)
                elif not others and prev:
                    s.init = ("prev", prev[-1])
                    s.guard = "out=%s, %s; at the call it holds the result of the site at line %d" % (
                        name, where_alloc, prev[-1].line)
                else:
                    s.init = ("buf",)
                    s.guard = "out=%s, %s (every cell written), stored to since (first at line %d)" % (
                        name, where_alloc, others[0].lineno if others else between[0].lineno)
                continue
            s.init = ("junk",)
            s.guard = "UNGUARDED: out=%s is not a recognised initialised buffer" % s.out_text
    return sites


def scan_py(repo, rel):
    p = os.path.join(repo, rel)
    try:
        with open(p, encoding="utf-8") as f:
            src = f.read()
        tree = ast.parse(src)
    except (OSError, SyntaxError, UnicodeDecodeError) as ex:
        raise TranslatorReject("%s: cannot parse: %s" % (rel, ex))
    sites = []

    def visit(node, fn):
        for ch in ast.iter_child_nodes(node):
            nfn = ch if isinstance(ch, (ast.FunctionDef, ast.AsyncFunctionDef)) else fn
            if isinstance(ch, ast.Call):
                s = classify_call(ch, rel, fn, None)
                if s is not None:
                    sites.append(s)
            visit(ch, nfn)
    visit(tree, None)
    # cross-check with the text-level scan: every `where=` token must belong to a classified call
    hits, _ = text_hits(src)
    plain_assign = {n.lineno for n in ast.walk(tree) if isinstance(n, (ast.Assign, ast.AnnAssign, ast.AugAssign))
                    for t in (n.targets if isinstance(n, ast.Assign) else [n.target])
                    if isinstance(t, ast.Name) and t.id == "where"}
    defaults = set()
    for n in ast.walk(tree):
        if isinstance(n, (ast.FunctionDef, ast.AsyncFunctionDef, ast.Lambda)):
            for a in list(n.args.args) + list(n.args.kwonlyargs) + list(n.args.posonlyargs):
                if a.arg == "where":
                    defaults.add(a.lineno)
    for line, _off in hits:
        if any(s.line <= line <= s.end_line for s in sites) or line in plain_assign or line in defaults:
            continue
        raise TranslatorReject("%s:%d: a `where=` token that is not the keyword of a call the scanner classified" % (rel, line))
    sites.sort(key=lambda s: (s.line, s.call.col_offset))
    return resolve_inits(sites)


def scan_pyx(repo, rel):
    """Cython sources are not parsed as a whole: every `where=` token must sit in a call
    expression that parses as Python on its own; names cannot be resolved there, so only an inline
    initialised out= is accepted."""
    p = os.path.join(repo, rel)
    try:
        with open(p, encoding="utf-8") as f:
            src = f.read()
    except (OSError, UnicodeDecodeError) as ex:
        raise TranslatorReject("%s: cannot read: %s" % (rel, ex))
    hits, blank = text_hits(src)
    sites = []
    for line, off in hits:
        txt = enclosing_call_text(src, blank, off)
        if txt is None:
            raise TranslatorReject("%s:%d: `where=` outside a call expression the scanner can delimit" % (rel, line))
        try:
            node = ast.parse(" ".join(txt.split()), mode="eval").body
        except SyntaxError:
            raise TranslatorReject("%s:%d: call carrying where= is not plain Python: %s" % (rel, line, txt[:120]))
        if not isinstance(node, ast.Call):
            raise TranslatorReject("%s:%d: `where=` not in a call: %s" % (rel, line, txt[:120]))
        s = classify_call(node, rel, None, None)
        if s is None:
            raise TranslatorReject("%s:%d: could not attribute `where=` to a call: %s" % (rel, line, txt[:120]))
        s.line = s.end_line = line
        s.func = "<cython>"
        sites.append(s)
    return resolve_inits(sites)


def scan(repo):
    files = source_files(repo)
    sites = []
    for rel in files:
        sites += scan_pyx(repo, rel) if rel.endswith(".pyx") else scan_py(repo, rel)
    return files, sites


def uninit_allocs(repo, files):
    """Informational: np.empty / np.empty_like / np.ndarray( allocation sites (not modelled here;
    whether every cell is written before it is read is checked only by the perturbed runs)."""
    res = []
    pat = re.compile(r"(?<![\w.])(?:np|numpy)\.(empty_like|empty|ndarray)\s*\(")
    for rel in files:
        with open(os.path.join(repo, rel), encoding="utf-8") as f:
            blank = blank_comments_and_strings(f.read())
        for m in pat.finditer(blank):
            res.append((rel, blank.count("\n", 0, m.start()) + 1, m.group(1)))
    return res


# ----------------------------------------------------------------------------- emission
def _ident(rel, line):
    stem = re.sub(r"\W", "_", rel[len("enspara/"):] if rel.startswith("enspara/") else rel)
    return "site_%s_L%d" % (stem, line)


def _cmt(s):
    return s.replace("(*", "( *").replace("*)", "* )")


def site_summary(s):
    d = {"file": s.rel, "line": s.line, "func": s.func, "call": s.text, "kind": s.kind}
    if s.kind == "masked":
        d.update(ufunc=s.ufunc, guard=s.guard, guarded=s.init[0] != "junk", init=s.init[0])
    else:
        d["why"] = s.why
    return d


def emit(repo):
    files, sites = scan(repo)
    masked = [s for s in sites if s.kind == "masked"]
    others = [s for s in sites if s.kind != "masked"]
    L = ["(* GENERATED by translator/sites.py -- do not edit.",
         "   Scanned %d source files under enspara/ (enspara/test excluded; %d .pyx): %d calls carry where=," % (
             len(files), sum(1 for f in files if f.endswith(".pyx")), len(sites)),
         "   %d of them masked element-wise operations (one obligation each). *)" % len(masked),
         "From Coq Require Import List Bool Arith.", "From EV Require Import Masked MaskedProofs.",
         "Import ListNotations.", ""]
    for s in others:
        L.append("(* not a mask: %s:%d %s  %s  -- %s *)" % (s.rel, s.line, s.func, _cmt(s.text), _cmt(s.why)))
    L.append("")
    names = {}
    used = set()
    for k, s in enumerate(masked, 1):
        nm = _ident(s.rel, s.line)
        while nm in used:
            nm += "_b"
        used.add(nm)
        s.ident = nm
        names[id(s)] = nm
        # parameters of this site (after the carrier A and before junk)
        own = [("uf%d" % k, "A -> A" if s.arity == 1 else "A -> A -> A")]
        aliased = (s.out_text is not None and s.arity == 1 and s.operands[0] == s.out_text)
        kindi = s.init[0]
        if kindi == "filled":
            own.append(("fill%d" % k, "A"))
        if kindi == "buf":
            own.append(("buf%d" % k, "list A"))
        ops = []
        for j, optxt in enumerate(s.operands):
            if s.out_text is not None and optxt == s.out_text and kindi in ("prev", "buf"):
                ops.append(None)            # the operand IS the output buffer (in-place call)
            else:
                own.append(("x%d_%d" % (k, j), "list A"))
                ops.append("x%d_%d" % (k, j))
        own.append(("m%d" % k, "list bool"))
        inherited = list(s.init[1].params) if kindi == "prev" else []
        s.params = inherited + own
        if kindi == "prev":
            p = s.init[1]
            buf_term = "(%s A %s junk)" % (p.ident, " ".join(n for n, _ in p.params))
        elif kindi == "buf":
            buf_term = "buf%d" % k
        else:
            buf_term = None
        op_terms = [(buf_term if o is None else o) for o in ops]
        shape = ("length %s" % op_terms[0]) if s.arity == 1 else ("length (combine %s %s)" % tuple(op_terms))
        if kindi == "filled":
            init_term = "(filled fill%d (%s))" % (k, shape)
        elif kindi == "junk":
            init_term = "junk"
        else:
            init_term = buf_term
        body = ("masked uf%d %s m%d %s" % (k, op_terms[0], k, init_term) if s.arity == 1 else
                "masked2 uf%d %s %s m%d %s" % (k, op_terms[0], op_terms[1], k, init_term))
        binders = " ".join("(%s : %s)" % (n, t) for n, t in s.params)
        argl = " ".join(n for n, _ in s.params)
        L.append("(* masked site %d/%d  %s:%d  in %s" % (k, len(masked), s.rel, s.line, s.func))
        L.append("     %s" % _cmt(s.text))
        L.append("     %s *)" % _cmt(s.guard))
        L.append("Definition %s (A : Type) %s (junk : list A) : list A :=\n  %s." % (nm, binders, body))
        L.append("Definition %s_stmt : Prop :=\n  forall (A : Type) %s (junk1 junk2 : list A),\n    %s A %s junk1 = %s A %s junk2."
                 % (nm, binders, nm, argl, nm, argl))
        L.append("Lemma %s_heap_independent : %s_stmt.\nProof. unfold %s_stmt. intros. reflexivity. Qed." % (nm, nm, nm))
        if kindi == "filled":
            x_term = op_terms[0] if s.arity == 1 else "(combine %s %s)" % tuple(op_terms)
            L.append("Lemma %s_masked_out_cell_is_fill :\n  forall (A : Type) %s (junk : list A) (i : nat),\n"
                     "    i < length %s -> nth_error m%d i = Some false ->\n    nth_error (%s A %s junk) i = Some fill%d."
                     % (nm, binders, x_term, k, nm, argl, k))
            L.append("Proof. intros. unfold %s%s. apply masked_filled_out_cell; assumption. Qed." % (
                nm, "" if s.arity == 1 else ", masked2"))
        L.append("")
    L.append("Definition n_masked_sites : nat := %d." % len(masked))
    L.append("Definition n_other_where_calls : nat := %d." % len(others))
    L.append("Definition n_scanned_files : nat := %d." % len(files))
    L.append("Definition masked_site_lines : list nat := [%s]." % "; ".join(str(s.line) for s in masked))
    L.append("")
    conj = "True"
    proof = "I"
    for s in reversed(masked):
        conj = "%s_stmt /\\ (%s)" % (s.ident, conj)
        proof = "(conj %s_heap_independent %s)" % (s.ident, proof)
    L.append("(* every masked call site of the tree: its result does not depend on the heap *)")
    L.append("Definition all_sites_statement : Prop :=\n  %s." % conj)
    L.append("Lemma all_sites_heap_independent : all_sites_statement.\nProof. exact %s. Qed." % proof)
    L.append("")
    return "\n".join(L), files, sites


def translate(repo):
    text, _, _ = emit(repo)
    return {"Gen/MaskedSites.v": text}


if __name__ == "__main__":
    repo = sys.argv[1] if len(sys.argv) > 1 else "/repo"
    text, files, sites = emit(repo)
    if "--print" in sys.argv:
        print(text)
    else:
        for s in sites:
            print(site_summary(s))
        print(len(files), "files")
