"""enspara/mpi/ops.py, enspara/cluster/kcenters.py (_kcenters_iteration_mpi, MPI branches of kcenters),
enspara/cluster/kmedoids.py (ctr_ids_mpi, _msq, _propose_new_center_amongst, MPI branches of
_kmedoids_pam_update)   ->   Gen/MpiGen.v                                           (fail-closed)

What is regenerated from the current source -- the index arithmetic and the decision logic of the MPI
layer.  Every statement of the functions below is either translated (expression translator `Tr`) or
recognised by shape / pinned as normalised `ast.unparse` text; anything else raises TranslatorReject.

  ops.convert_local_indices      file_origin_ra[rank::mpi.size()].flatten()[local_fid]      -> gen_cli_one
  ops.assemble_striped_array     mpi.size() == 1, allreduce(len, SUM), np.all(local_arr > 0),
                                 global_arr[i::mpi.size()] = bcast(local_arr, root=i)        -> gen_asa_*
  ops.assemble_striped_ragged_array  np.sum(global_lengths), global_lengths[rank::mpi.size()],
                                 len(local_lengths) > 1, global_ra[rank::mpi.size()] = rank_ra,
                                 global_ra[rank] = rank_array                                -> gen_asr_*
  ops.striped_array_max          local_array.max(); allreduce(.., op=MAX)                    -> gen_striped_array_max
  ops.striped_array_mean         np.sum / len / size()==1 / allreduce(SUM) x 2 / the quotient -> gen_striped_array_mean
  ops.distribute_frame           owner_rank >= mpi.size(); mpi.rank() == owner_rank; data[world_index] / data[0];
                                 Bcast(frame, root=owner_rank)                               -> gen_df_*, gen_distribute_frame
  ops.randind                    allgather(len), sum(n_states) < 1, rank 0 draws randint(sum(n_states)), bcast root,
                                 concatenate([arange(sum(n_states))[r::size] for r in range(size)]),
                                 RaggedArray(concat, lengths=n_states), ra.where(a == global_index), first hit
                                                                                             -> gen_randind*
  kcenters._kcenters_iteration_mpi  len(center_inds) == 0 / cold choice; allgather(argmax), allgather(max);
                                 owner = argmax(dist_vals); index = dist_locs[owner]; the keywords of the
                                 distribute_frame call; recompute / improvement masks; the new label;
                                 the appended pair                                           -> gen_kci_*, gen_kc_iter_mpi
  kcenters.kcenters              which maximum feeds the while test in mpi_mode, which iteration / warm start
                                 function runs in mpi_mode                                   -> gen_kc_maxdist_mpi, gen_kc_guard_mpi
  kmedoids.ctr_ids_mpi           global_traj_id % num_procs, int(global_traj_id / num_procs), the owned rows,
                                 the local numbering, ra.where(global_inds == c)             -> gen_cim_*
  kmedoids._msq / _propose_new_center_amongst / _kmedoids_pam_update (mpi branches)
                                 randind -> sender test -> bcast root -> distribute_frame keywords -> (r, i);
                                 cost; accept test; medoid_inds[cid] = proposal
                                                                                             -> gen_msq, gen_prop_*, gen_pam_update_mpi
"""
import ast
import copy
from pyast import parse_file, find_func, reject, strip_doc
from core import TranslatorReject

OPS = "enspara/mpi/ops.py"
KC = "enspara/cluster/kcenters.py"
KM = "enspara/cluster/kmedoids.py"
U = ast.unparse


def need(cond, node, why):
    if not cond:
        reject(node, why)


def norm(text):
    return U(ast.parse(text).body[0])


def text_is(s, text):
    need(U(s) == norm(text), s, "expected `%s`" % text)


def sig(fn, names, defaults):
    need([a.arg for a in fn.args.args] == names and not fn.args.vararg and not fn.args.kwonlyargs
         and not fn.args.kwarg and not fn.args.posonlyargs and not fn.decorator_list
         and [U(d) for d in fn.args.defaults] == defaults, fn, "unexpected signature of %s" % fn.name)


def assign_to(s, name):
    need(isinstance(s, ast.Assign) and len(s.targets) == 1 and U(s.targets[0]) == name, s, "expected `%s = ...`" % name)
    return s.value


def raises_only(s):
    need(isinstance(s, ast.If) and not s.orelse and len(s.body) == 1 and isinstance(s.body[0], ast.Raise), s,
         "expected `if ...: raise ...`")
    return s.test


def is_log(s):
    """logger.debug/info(...) whose arguments are names, constants, tuples and len() of names only"""
    if not (isinstance(s, ast.Expr) and isinstance(s.value, ast.Call) and U(s.value.func) in ("logger.debug", "logger.info")):
        return False
    for a in list(s.value.args) + [k.value for k in s.value.keywords]:
        for n in ast.walk(a):
            if isinstance(n, ast.Call):
                need(U(n.func) in ("len", "np.count_nonzero", "min") , s, "call inside a logging statement")
            elif not isinstance(n, (ast.Name, ast.Constant, ast.Tuple, ast.Load, ast.BinOp, ast.Div, ast.Mult,
                                    ast.Subscript, ast.Attribute)):
                reject(s, "unexpected expression inside a logging statement")
    return True


def quiet(stmts):
    return [s for s in strip_doc(list(stmts)) if not is_log(s)]


def call_of(e, func, nargs=None, kws=None):
    """e must be the call FUNC(args.., kw=..) with exactly the given keyword names (in any order)"""
    need(isinstance(e, ast.Call) and U(e.func) == func and not any(isinstance(a, ast.Starred) for a in e.args)
         and all(k.arg is not None for k in e.keywords), e, "expected a call of %s" % func)
    if nargs is not None:
        need(len(e.args) == nargs, e, "%s: expected %d positional argument(s)" % (func, nargs))
    got = sorted(k.arg for k in e.keywords)
    need(got == sorted(kws or []), e, "%s: expected keywords %s, found %s" % (func, sorted(kws or []), got))
    return list(e.args), {k.arg: k.value for k in e.keywords}


def timed_body(s, msg_prefix):
    """with log.timed("...", ..) / timed(..): BODY -> BODY (the context manager only measures time)"""
    need(isinstance(s, ast.With) and len(s.items) == 1 and s.items[0].optional_vars is None
         and isinstance(s.items[0].context_expr, ast.Call) and U(s.items[0].context_expr.func) in ("log.timed", "timed"),
         s, "expected a `with log.timed(...)` block")
    c = s.items[0].context_expr
    need(c.args and isinstance(c.args[0], (ast.Constant, ast.Call)), s, "unexpected log.timed arguments")
    for a in c.args[1:] + [k.value for k in c.keywords]:
        need(U(a) in ("logger.debug", "logger.info"), s, "unexpected log.timed argument")
    return quiet(s.body)


# ============================================================================ expressions
NATOPS = {ast.Add: "Nat.add", ast.Mult: "Nat.mul", ast.FloorDiv: "Nat.div", ast.Mod: "Nat.modulo"}
NCMP = {ast.Eq: "(Nat.eqb %(a)s %(b)s)", ast.NotEq: "(negb (Nat.eqb %(a)s %(b)s))", ast.Lt: "(Nat.ltb %(a)s %(b)s)",
        ast.LtE: "(Nat.leb %(a)s %(b)s)", ast.Gt: "(Nat.ltb %(b)s %(a)s)", ast.GtE: "(Nat.leb %(b)s %(a)s)"}
QCMP = {ast.Lt: "(cmp_q_lt %(a)s %(b)s)", ast.LtE: "(cmp_q_le %(a)s %(b)s)", ast.Gt: "(cmp_q_gt %(a)s %(b)s)",
        ast.GtE: "(cmp_q_ge %(a)s %(b)s)"}
ELEM = {"LN": "N", "LQ": "Q", "LA": "A", "RN": "LN", "RA": "LA", "LLN": "LN"}
COQTY = {"N": "nat", "Q": "Q", "B": "bool", "LN": "list nat", "LQ": "list Q", "LA": "list A", "RN": "list (list nat)",
         "RA": "list (list A)", "A": "A", "PNN": "(nat * nat)"}
SUBST = {"mpi.size()": "size", "mpi.rank()": "rank"}


class Tr:
    """Python expression -> Gallina term over Base/MpiGenBase.v.  Types: N (non-negative int), Q (float, exact),
    B, A (opaque item), LN/LQ/LA (1-d arrays / lists), RN/RA (RaggedArray = rows), PNN (pair of ints).
    An integer index `x[i]` may raise: it is bound by `obind` in front of the term (self.binds)."""

    def __init__(self, env):
        self.env = dict(env)
        self.binds = []
        self.n = 0

    def go(self, e, want=None):
        s, t = self._tr(e)
        if want is not None and t != want:
            reject(e, "type %s where %s expected" % (t, want))
        return s, t

    def wrap(self, body):
        """body : option _  ->  all pending index bindings in front of it"""
        for v, term in reversed(self.binds):
            body = "obind %s (fun %s =>\n    %s)" % (term, v, body)
        return body

    def _opt(self, e):
        return "None" if e is None else "(Some %s)" % self.go(e, "N")[0]

    def _tr(self, e):
        t = U(e)
        if t in SUBST and SUBST[t] in self.env:
            return SUBST[t], self.env[SUBST[t]]
        if isinstance(e, ast.Constant):
            need(type(e.value) is int and e.value >= 0, e, "unsupported constant")
            return "%d%%nat" % e.value, "N"
        if isinstance(e, ast.Name):
            need(e.id in self.env, e, "unknown name %s" % e.id)
            return ("concat_" if e.id == "concat" else e.id), self.env[e.id]
        if isinstance(e, ast.Tuple):
            need(len(e.elts) == 2, e, "only pairs are supported")
            a, _ = self.go(e.elts[0], "N")
            b, _ = self.go(e.elts[1], "N")
            return "(%s, %s)" % (a, b), "PNN"
        if isinstance(e, ast.UnaryOp) and isinstance(e.op, ast.Not):
            return "(negb %s)" % self.go(e.operand, "B")[0], "B"
        if isinstance(e, ast.BinOp):
            ls, lt = self._tr(e.left)
            rs, rt = self._tr(e.right)
            if lt == rt == "N" and type(e.op) in NATOPS:
                return "(%s %s %s)" % (NATOPS[type(e.op)], ls, rs), "N"
            if isinstance(e.op, ast.Div) and lt == "Q" and rt == "Q":
                return "(q_div %s %s)" % (ls, rs), "Q"
            if isinstance(e.op, ast.Div) and lt == "Q" and rt == "N":
                return "(q_div %s (q_of_nat %s))" % (ls, rs), "Q"
            reject(e, "unsupported arithmetic on operands of types %s, %s" % (lt, rt))
        if isinstance(e, ast.Compare):
            need(len(e.ops) == 1, e, "chained comparison")
            a, ta = self._tr(e.left)
            b, tb = self._tr(e.comparators[0])
            if ta == tb == "N" and type(e.ops[0]) in NCMP:
                return NCMP[type(e.ops[0])] % {"a": a, "b": b}, "B"
            if ta == tb == "Q" and type(e.ops[0]) in QCMP:
                return QCMP[type(e.ops[0])] % {"a": a, "b": b}, "B"
            reject(e, "unsupported comparison of %s with %s" % (ta, tb))
        if isinstance(e, ast.Call):
            need(not e.keywords and not any(isinstance(a, ast.Starred) for a in e.args), e, "unsupported call form")
            f = U(e.func)
            if f == "len" and len(e.args) == 1:
                s, t = self._tr(e.args[0])
                need(t in ELEM, e, "len() of a %s" % t)
                return "(length %s)" % s, "N"
            if f in ("np.sum", "sum") and len(e.args) == 1:
                s, t = self._tr(e.args[0])
                need(t in ("LN", "LQ"), e, "sum of a %s" % t)
                return ("(np_sum_n %s)" if t == "LN" else "(np_sum_q %s)") % s, ("N" if t == "LN" else "Q")
            if f == "np.arange" and len(e.args) == 1:
                return "(np_arange %s)" % self.go(e.args[0], "N")[0], "LN"
            if f == "np.square" and len(e.args) == 1:
                return "(map np_square %s)" % self.go(e.args[0], "LQ")[0], "LQ"
            if f == "np.max" and len(e.args) == 1:
                return self._bind("(np_max %s)" % self.go(e.args[0], "LQ")[0]), "Q"
            if f == "np.argmax" and len(e.args) == 1:
                return self._bind("(np_argmax %s)" % self.go(e.args[0], "LQ")[0]), "N"
            if f == "int" and len(e.args) == 1 and isinstance(e.args[0], ast.BinOp) and isinstance(e.args[0].op, ast.Div):
                a, _ = self.go(e.args[0].left, "N")
                b, _ = self.go(e.args[0].right, "N")
                return "(py_int_truediv %s %s)" % (a, b), "N"
            if f == "np.all" and len(e.args) == 1 and isinstance(e.args[0], ast.Compare) and len(e.args[0].ops) == 1 \
                    and U(e.args[0].comparators[0]) == "0" and type(e.args[0].ops[0]) in (ast.Gt, ast.GtE):
                s, _ = self.go(e.args[0].left, "LN")
                return "(%s %s)" % ("np_all_gt0" if isinstance(e.args[0].ops[0], ast.Gt) else "np_all_ge0", s), "B"
            if isinstance(e.func, ast.Attribute) and not e.args:
                s, t = self._tr(e.func.value)
                if e.func.attr == "flatten" and t in ("RN", "RA"):
                    return "(ra_flatten %s)" % s, ELEM[t]
                if e.func.attr == "max" and t == "LQ":
                    return self._bind("(np_max %s)" % s), "Q"
            if f == "ra.RaggedArray" and len(e.args) == 1:
                reject(e, "RaggedArray without lengths")
            reject(e, "unsupported call %s" % f)
        if isinstance(e, ast.Attribute):
            s, t = self._tr(e.value)
            if e.attr == "lengths" and t in ("RN", "RA"):
                return "(ra_lengths %s)" % s, "LN"
            if e.attr == "_data" and t in ("RN", "RA"):
                return "(ra_data %s)" % s, ELEM[t]
            reject(e, "unsupported attribute .%s of a %s" % (e.attr, t))
        if isinstance(e, ast.Subscript):
            s, t = self._tr(e.value)
            need(t in ELEM, e, "subscript of a %s" % t)
            if isinstance(e.slice, ast.Slice):
                sl = e.slice
                return "(nslice %s %s %s %s)" % (s, self._opt(sl.lower), self._opt(sl.upper), self._opt(sl.step)), t
            i, ti = self._tr(e.slice)
            if ti == "N":
                return self._bind("(py_index %s %s)" % (s, i)), ELEM[t]
            if ti == "LN" and t in ("RN", "RA"):
                return self._bind("(ra_take_rows %s %s)" % (s, i)), t
            reject(e, "unsupported index of type %s" % ti)
        reject(e, "unsupported expression")

    def _bind(self, term):
        self.n += 1
        v = "v%d_" % self.n
        self.binds.append((v, term))
        return v


def pure(e, env, want=None):
    """expression that cannot raise"""
    t = Tr(env)
    s, ty = t.go(e, want)
    need(not t.binds, e, "an expression that may raise is not allowed here")
    return s, ty


def opt(e, env, want=None, ret=None):
    """expression that may raise -> term of type option <want>"""
    t = Tr(env)
    s, ty = t.go(e, want)
    return t.wrap("Some %s" % (ret % s if ret else s)), ty


def collective(e, kind, env_vec):
    """mpi.comm.<kind>(ARG, ...) -> (ARG expression, dict of keywords)"""
    need(isinstance(e, ast.Call) and U(e.func) == "mpi.comm." + kind and len(e.args) == 1, e,
         "expected mpi.comm.%s(<contribution>, ...)" % kind)
    return e.args[0], {k.arg: k.value for k in e.keywords}


REDUCE = {"mpi.mpi4py.SUM": "sum", "mpi.mpi4py.MAX": "max", "mpi.mpi4py.MIN": "min"}


def reduce_op(kw, node):
    need(set(kw) == {"op"} and U(kw["op"]) in REDUCE, node, "expected op=mpi.mpi4py.SUM/MAX/MIN")
    return REDUCE[U(kw["op"])]


# ============================================================================ ops.py
def do_convert_local(tree, out):
    fn = find_func(tree, "convert_local_indices", OPS)
    sig(fn, ["local_ctr_inds", "global_lengths"], [])
    b = quiet(fn.body)
    need(len(b) == 5, fn, "convert_local_indices: expected 5 statements, found %d" % len(b))
    env = {"global_lengths": "LN", "size": "N"}
    gi, _ = pure(assign_to(b[0], "global_indexing"), env, "LN")
    env["global_indexing"] = "LN"
    args, kw = call_of(assign_to(b[1], "file_origin_ra"), "ra.RaggedArray", 1, ["lengths"])
    ra_d, _ = pure(args[0], env, "LN")
    ra_l, _ = pure(kw["lengths"], env, "LN")
    text_is(b[2], "ctr_inds = []")
    lp = b[3]
    need(isinstance(lp, ast.For) and not lp.orelse and U(lp.iter) == "local_ctr_inds" and isinstance(lp.target, ast.Tuple)
         and len(lp.target.elts) == 2 and all(isinstance(x, ast.Name) for x in lp.target.elts)
         and sorted(x.id for x in lp.target.elts) == ["local_fid", "rank"], lp,
         "expected `for rank, local_fid in local_ctr_inds`")
    names = [x.id for x in lp.target.elts]
    lb = quiet(lp.body)
    need(len(lb) == 2, lp, "convert_local_indices: expected two statements in the loop")
    env.update({"file_origin_ra": "RN", "rank": "N", "local_fid": "N"})
    env2 = dict(env)
    del env2["size"]
    env2["size"] = "N"
    one, _ = opt(assign_to(lb[0], "global_fid"), env2, "N")
    text_is(lb[1], "ctr_inds.append(global_fid)")
    text_is(b[4], "return ctr_inds")
    out += ["(* ---- %s: convert_local_indices *)" % OPS,
            "Definition gen_cli_one (size : nat) (global_lengths : list nat) (rank local_fid : nat) : option nat :=",
            "  let global_indexing := %s in" % gi,
            "  obind (ra_make %s %s) (fun file_origin_ra =>" % (ra_d, ra_l),
            "    %s)." % one,
            "(* for %s, %s in local_ctr_inds *)" % tuple(names),
            "Definition gen_convert_local_indices (size : nat) (global_lengths : list nat) (local_ctr_inds : list (nat * nat))",
            "  : option (list nat) :=",
            "  on_ranks (fun pr => let '(%s, %s) := pr in gen_cli_one size global_lengths rank local_fid) local_ctr_inds." % tuple(names),
            ""]


def slice_target(s, arr, env):
    """ARR[a:b:c] = VALUE -> ((a, b, c) as option terms, VALUE)"""
    need(isinstance(s, ast.Assign) and len(s.targets) == 1 and isinstance(s.targets[0], ast.Subscript)
         and U(s.targets[0].value) == arr and isinstance(s.targets[0].slice, ast.Slice), s,
         "expected `%s[a:b:c] = ...`" % arr)
    sl = s.targets[0].slice
    t = Tr(env)
    parts = (t._opt(sl.lower), t._opt(sl.upper), t._opt(sl.step))
    need(not t.binds, s, "slice bounds must not raise")
    return parts, s.value


def do_assemble_array(tree, out):
    fn = find_func(tree, "assemble_striped_array", OPS)
    sig(fn, ["local_arr"], [])
    b = quiet(fn.body)
    need(len(b) == 8, fn, "assemble_striped_array: expected 8 statements, found %d" % len(b))
    s0 = b[0]
    need(isinstance(s0, ast.If) and not s0.orelse and len(s0.body) == 1 and U(s0.body[0]) == "return local_arr", s0,
         "expected `if mpi.size() == 1: return local_arr`")
    triv, _ = pure(s0.test, {"size": "N"}, "B")
    arg, kw = collective(assign_to(b[1], "total_dim1"), "allreduce", None)
    op = reduce_op(kw, b[1])
    need(op == "sum", b[1], "assemble_striped_array: the total length must be a SUM reduction")
    contrib, _ = pure(arg, {"local_arr": "LN"}, "N")
    text_is(b[2], "total_shape = (total_dim1,) + local_arr.shape[1:]")
    bad, _ = pure(raises_only(b[3]), {"local_arr": "LN"}, "B")
    text_is(b[4], "global_arr = np.zeros(total_shape, dtype=local_arr.dtype) - 1")
    lp = b[5]
    need(isinstance(lp, ast.For) and not lp.orelse and U(lp.target) == "i" and U(lp.iter) == "range(mpi.size())"
         and len(lp.body) == 1, lp, "expected `for i in range(mpi.size())` with one statement")
    (lo, hi, st), val = slice_target(lp.body[0], "global_arr", {"i": "N", "size": "N"})
    arg, kw = collective(val, "bcast", None)
    need(U(arg) == "local_arr" and set(kw) == {"root"}, val, "expected mpi.comm.bcast(local_arr, root=...)")
    root, _ = pure(kw["root"], {"i": "N", "size": "N"}, "N")
    text_is(b[6], "assert np.all(global_arr > 0), global_arr")
    # bool - 1 is int64: the result is handed back in the element type every rank put in (like assemble_striped_ragged_array)
    text_is(b[7], "return global_arr.astype(local_arr.dtype, copy=False)")
    out += ["(* ---- %s: assemble_striped_array *)" % OPS,
            "Definition gen_asa_trivial (size : nat) : bool := %s." % triv,
            "Definition gen_asa_total (locals : list (list nat)) : nat :=",
            "  allreduce_%s_n (map (fun local_arr => %s) locals)." % (op, contrib),
            "Definition gen_asa_bad (local_arr : list nat) : bool := %s." % bad,
            "(* global_arr[..] = mpi.comm.bcast(local_arr, root=..) *)",
            "Definition gen_asa_step (size : nat) (locals : list (list nat)) (global_arr : list nat) (i : nat) : option (list nat) :=",
            "  nput_slice global_arr %s %s %s (bcast locals %s [])." % (lo, hi, st, root),
            "(* every rank runs the same statements on its own local_arr; `locals` = the local_arr of ranks 0..size-1.",
            "   The value is what every rank returns (for size 1: the only rank's own array). *)",
            "Definition gen_assemble_striped_array (size : nat) (locals : list (list nat)) : option (list nat) :=",
            "  if gen_asa_trivial size then py_index locals 0",
            "  else if existsb gen_asa_bad locals then None",
            "  else fold_opt (gen_asa_step size locals) (py_range size) (Some (repeat 0%nat (gen_asa_total locals))).",
            ""]


def do_assemble_ragged(tree, out):
    fn = find_func(tree, "assemble_striped_ragged_array", OPS)
    sig(fn, ["local_array", "global_lengths"], [])
    b = quiet(fn.body)
    need(len(b) == 6, fn, "assemble_striped_ragged_array: expected 6 statements, found %d" % len(b))
    text_is(b[0], "assert np.issubdtype(type(global_lengths[0]), np.integer)")
    v = assign_to(b[1], "global_array")
    need(isinstance(v, ast.BinOp) and isinstance(v.op, ast.Sub) and U(v.right) == "1", v, "expected np.zeros(shape=(n,)) - 1")
    _, kw = call_of(v.left, "np.zeros", 0, ["shape"])
    need(isinstance(kw["shape"], ast.Tuple) and len(kw["shape"].elts) == 1, v, "expected a 1-d shape")
    env = {"global_lengths": "LN", "size": "N"}
    total, _ = pure(kw["shape"].elts[0], env, "N")
    args, kw = call_of(assign_to(b[2], "global_ra"), "ra.RaggedArray", 1, ["lengths"])
    need(U(args[0]) == "global_array", b[2], "expected RaggedArray(global_array, lengths=...)")
    init_l, _ = pure(kw["lengths"], env, "LN")
    lp = b[3]
    need(isinstance(lp, ast.For) and not lp.orelse and U(lp.target) == "rank" and U(lp.iter) == "range(mpi.size())", lp,
         "expected `for rank in range(mpi.size())`")
    lb = quiet(lp.body)
    need(len(lb) == 3, lp, "assemble_striped_ragged_array: expected 3 statements in the loop")
    envl = {"global_lengths": "LN", "size": "N", "rank": "N"}
    arg, kw = collective(assign_to(lb[0], "rank_array"), "bcast", None)
    need(U(arg) == "local_array" and set(kw) == {"root"}, lb[0], "expected mpi.comm.bcast(local_array, root=...)")
    root, _ = pure(kw["root"], envl, "N")
    ll, _ = pure(assign_to(lb[1], "local_lengths"), envl, "LN")
    br = lb[2]
    need(isinstance(br, ast.If) and len(br.body) == 2 and len(br.orelse) == 1, br, "expected the many-rows / one-row branch")
    many, _ = pure(br.test, {"local_lengths": "LN"}, "B")
    args, kw = call_of(assign_to(br.body[0], "rank_ra"), "ra.RaggedArray", 1, ["lengths"])
    need(U(args[0]) == "rank_array" and U(kw["lengths"]) == "local_lengths", br.body[0],
         "expected RaggedArray(rank_array, lengths=local_lengths)")
    (lo, hi, st), val = slice_target(br.body[1], "global_ra", envl)
    need(U(val) == "rank_ra", br.body[1], "expected global_ra[..] = rank_ra")
    one = br.orelse[0]
    need(isinstance(one, ast.Assign) and len(one.targets) == 1 and isinstance(one.targets[0], ast.Subscript)
         and U(one.targets[0].value) == "global_ra" and not isinstance(one.targets[0].slice, ast.Slice)
         and U(one.value) == "rank_array", one, "expected global_ra[<row>] = rank_array")
    row, _ = pure(one.targets[0].slice, envl, "N")
    text_is(b[4], "assert np.all(global_ra._data) >= 0")
    text_is(b[5], "return global_ra._data.astype(local_array.dtype)")
    out += ["(* ---- %s: assemble_striped_ragged_array *)" % OPS,
            "Definition gen_asr_init {A} (fill : A) (global_lengths : list nat) : option (list (list A)) :=",
            "  let global_array := repeat fill %s in" % total,
            "  ra_make global_array %s." % init_l,
            "Definition gen_asr_local_lengths (size : nat) (global_lengths : list nat) (rank : nat) : list nat := %s." % ll,
            "Definition gen_asr_many (local_lengths : list nat) : bool := %s." % many,
            "Definition gen_asr_step {A} (size : nat) (global_lengths : list nat) (locals : list (list A))",
            "           (global_ra : list (list A)) (rank : nat) : option (list (list A)) :=",
            "  let rank_array := bcast locals %s [] in" % root,
            "  let local_lengths := gen_asr_local_lengths size global_lengths rank in",
            "  if gen_asr_many local_lengths",
            "  then obind (ra_make rank_array local_lengths) (fun rank_ra => ra_put_rows global_ra %s %s %s rank_ra)" % (lo, hi, st),
            "  else ra_set_row global_ra %s rank_array." % row,
            "Definition gen_assemble_striped_ragged_array {A} (fill : A) (size : nat) (global_lengths : list nat)",
            "           (locals : list (list A)) : option (list A) :=",
            "  option_map (@ra_data A) (fold_opt (gen_asr_step size global_lengths locals) (py_range size)",
            "                                    (gen_asr_init fill global_lengths)).",
            ""]


def do_max_mean(tree, out):
    fn = find_func(tree, "striped_array_max", OPS)
    sig(fn, ["local_array"], [])
    b = quiet(fn.body)
    need(len(b) == 4, fn, "striped_array_max: expected 4 statements, found %d" % len(b))
    lm, _ = opt(assign_to(b[0], "local_max"), {"local_array": "LQ"}, "Q")
    text_is(b[1], "mpi.comm.Barrier()")
    arg, kw = collective(assign_to(b[2], "global_max"), "allreduce", None)
    need(U(arg) == "local_max", b[2], "expected allreduce(local_max, ...)")
    op = reduce_op(kw, b[2])
    need(op in ("max", "min"), b[2], "expected a MAX/MIN reduction")
    text_is(b[3], "return global_max")
    out += ["(* ---- %s: striped_array_max *)" % OPS,
            "Definition gen_striped_array_max (locals : list (list Q)) : option Q :=",
            "  obind (on_ranks (fun local_array => %s) locals) (fun local_max => allreduce_%s_q local_max)." % (lm, op),
            ""]
    fn = find_func(tree, "striped_array_mean", OPS)
    sig(fn, ["local_array"], [])
    b = quiet(fn.body)
    need(len(b) == 9, fn, "striped_array_mean: expected 9 statements, found %d" % len(b))
    ls, _ = pure(assign_to(b[0], "local_sum"), {"local_array": "LQ"}, "Q")
    ln, _ = pure(assign_to(b[1], "local_len"), {"local_array": "LQ"}, "N")
    s2 = b[2]
    need(isinstance(s2, ast.If) and not s2.orelse and len(s2.body) == 1 and isinstance(s2.body[0], ast.Return)
         and s2.body[0].value is not None, s2, "expected `if mpi.size() == 1: return ...`")
    triv, _ = pure(s2.test, {"size": "N"}, "B")
    ret1, _ = pure(s2.body[0].value, {"local_sum": "Q", "local_len": "N"}, "Q")
    text_is(b[3], "global_sum = np.zeros(1) - 1")
    text_is(b[4], "global_len = np.zeros(1) - 1")
    arg, kw = collective(assign_to(b[5], "global_sum"), "allreduce", None)
    need(U(arg) in ("local_sum", "local_len"), b[5], "expected allreduce(local_sum, ...)")
    gs = "allreduce_%s_%s %s" % (reduce_op(kw, b[5]), "q" if U(arg) == "local_sum" else "n", U(arg))
    gs_t = "Q" if U(arg) == "local_sum" else "N"
    arg, kw = collective(assign_to(b[6], "global_len"), "allreduce", None)
    need(U(arg) in ("local_sum", "local_len"), b[6], "expected allreduce(local_len, ...)")
    gl = "allreduce_%s_%s %s" % (reduce_op(kw, b[6]), "q" if U(arg) == "local_sum" else "n", U(arg))
    gl_t = "Q" if U(arg) == "local_sum" else "N"
    need("max" not in gs + gl and "min" not in gs + gl, fn, "striped_array_mean: expected SUM reductions")
    text_is(b[7], "assert global_len >= 0")
    need(isinstance(b[8], ast.Return) and b[8].value is not None, b[8], "expected a return")
    ret, _ = pure(b[8].value, {"global_sum": gs_t, "global_len": gl_t}, "Q")
    out += ["(* ---- %s: striped_array_mean *)" % OPS,
            "Definition gen_sam_local_sum (local_array : list Q) : Q := %s." % ls,
            "Definition gen_sam_local_len (local_array : list Q) : nat := %s." % ln,
            "Definition gen_striped_array_mean (size : nat) (locals : list (list Q)) : option Q :=",
            "  if %s" % triv,
            "  then match locals with",
            "       | [local_array] => let local_sum := gen_sam_local_sum local_array in",
            "                          let local_len := gen_sam_local_len local_array in Some %s" % ret1,
            "       | _ => None",
            "       end",
            "  else let local_sum := map gen_sam_local_sum locals in",
            "       let local_len := map gen_sam_local_len locals in",
            "       let global_sum := %s in" % gs,
            "       let global_len := %s in" % gl,
            "       Some %s." % ret,
            ""]


def do_distribute_frame(tree, out):
    fn = find_func(tree, "distribute_frame", OPS)
    sig(fn, ["data", "world_index", "owner_rank"], [])
    b = quiet(fn.body)
    need(len(b) == 4, fn, "distribute_frame: expected 4 statements, found %d" % len(b))
    env = {"size": "N", "rank": "N", "world_index": "N", "owner_rank": "N"}
    bad, _ = pure(raises_only(b[0]), env, "B")
    br = b[1]
    need(isinstance(br, ast.If) and U(br.test) == "hasattr(data, 'xyz')" and len(br.body) == 1 and len(br.orelse) == 1, br,
         "expected the md.Trajectory / ndarray branch")
    got = []
    for inner, suffix in ((br.body[0], ".xyz"), (br.orelse[0], "")):
        need(isinstance(inner, ast.If) and len(inner.body) == 1 and len(inner.orelse) == 1, inner, "expected the owner test")
        test, _ = pure(inner.test, env, "B")
        own = assign_to(inner.body[0], "frame")
        oth = assign_to(inner.orelse[0], "frame")
        if suffix:
            need(isinstance(own, ast.Attribute) and own.attr == "xyz", own, "expected data[..].xyz")
            own = own.value
        _, (a,) = "np.empty_like", call_of(oth, "np.empty_like", 1, [])[0]
        if suffix:
            need(isinstance(a, ast.Attribute) and a.attr == "xyz", a, "expected np.empty_like(data[..].xyz)")
            a = a.value
        envd = dict(env)
        envd["data"] = "LA"
        t1 = Tr(envd)
        s1, _ = t1.go(own, "A")
        t2 = Tr(envd)
        s2, _ = t2.go(a, "A")
        need(len(t1.binds) == 1 and len(t2.binds) == 1 and s1 == t1.binds[0][0] and s2 == t2.binds[0][0], inner,
             "expected frame = data[<index>] / np.empty_like(data[<index>])")
        got.append((test, t1.binds[0][1], t2.binds[0][1]))
    need(got[0] == got[1], br, "the trajectory and the array branch of distribute_frame differ: %s" % (got,))
    test, own, oth = got[0]
    bc = b[2]
    need(isinstance(bc, ast.Expr), bc, "expected mpi.comm.Bcast(frame, root=...)")
    arg, kw = collective(bc.value, "Bcast", None)
    need(U(arg) == "frame" and set(kw) == {"root"}, bc, "expected mpi.comm.Bcast(frame, root=...)")
    root, _ = pure(kw["root"], env, "N")
    text_is(b[3], "if hasattr(data, 'xyz'):\n    wrapped_data = type(data)(xyz=frame, topology=data.top)\n"
                  "    return wrapped_data\nelse:\n    return frame")
    out += ["(* ---- %s: distribute_frame *)" % OPS,
            "Definition gen_df_bad_owner (size owner_rank : nat) : bool :=",
            "  let rank := 0%%nat in let world_index := 0%%nat in %s." % bad,
            "Definition gen_df_is_owner (size rank world_index owner_rank : nat) : bool := %s." % test,
            "(* what a rank puts into the Bcast buffer (None: the rank raises IndexError) *)",
            "Definition gen_df_frame {A} (size : nat) (data : list A) (rank world_index owner_rank : nat) : option A :=",
            "  if gen_df_is_owner size rank world_index owner_rank then %s else %s." % (own, oth),
            "Definition gen_df_root (size world_index owner_rank : nat) : nat := let rank := 0%%nat in %s." % root,
            "Definition gen_distribute_frame {A} (size : nat) (datas : list (list A)) (world_index owner_rank : nat) : option A :=",
            "  if gen_df_bad_owner size owner_rank then None",
            "  else obind (on_ranks (fun rd => gen_df_frame size (snd rd) (fst rd) world_index owner_rank) (with_rank datas))",
            "             (fun frames => bcast_opt frames (gen_df_root size world_index owner_rank)).",
            ""]


def do_randind(tree, out):
    fn = find_func(tree, "randind", OPS)
    sig(fn, ["local_array", "random_state"], ["None"])
    b = quiet(fn.body)
    need(len(b) == 11, fn, "randind: expected 11 statements, found %d" % len(b))
    text_is(b[0], "random_state = check_random_state(random_state)")
    v = assign_to(b[1], "n_states")
    args, _ = call_of(v, "np.array", 1, [])
    arg, kw = collective(args[0], "allgather", None)
    need(not kw, v, "allgather takes no keyword")
    ns, _ = pure(arg, {"local_array": "LA"}, "N")
    text_is(b[2], "assert np.all(n_states >= 0)")
    env = {"n_states": "LN", "size": "N"}
    empty, _ = pure(raises_only(b[3]), env, "B")
    dr = b[4]
    need(isinstance(dr, ast.If) and len(dr.body) == 1 and len(dr.orelse) == 1
         and U(dr.orelse[0]) == "global_index = None", dr, "expected the draw on one rank")
    t = dr.test
    need(isinstance(t, ast.Compare) and len(t.ops) == 1 and isinstance(t.ops[0], ast.Eq) and U(t.left) == "mpi.rank()", t,
         "expected `mpi.rank() == <rank>`")
    drawer, _ = pure(t.comparators[0], {}, "N")
    args, _ = call_of(assign_to(dr.body[0], "global_index"), "random_state.randint", 1, [])
    bound, _ = pure(args[0], env, "N")
    arg, kw = collective(assign_to(b[5], "global_index"), "bcast", None)
    need(U(arg) == "global_index" and set(kw) == {"root"}, b[5], "expected bcast(global_index, root=...)")
    root, _ = pure(kw["root"], {}, "N")
    v = assign_to(b[6], "concat")
    args, _ = call_of(v, "np.concatenate", 1, [])
    lc = args[0]
    need(isinstance(lc, ast.ListComp) and len(lc.generators) == 1 and not lc.generators[0].ifs
         and not lc.generators[0].is_async and U(lc.generators[0].target) == "r"
         and U(lc.generators[0].iter) == "range(mpi.size())", lc, "expected [... for r in range(mpi.size())]")
    elt, _ = pure(lc.elt, {"n_states": "LN", "size": "N", "r": "N"}, "LN")
    args, kw = call_of(assign_to(b[7], "a"), "ra.RaggedArray", 1, ["lengths", "error_checking"])
    need(U(args[0]) == "concat" and U(kw["error_checking"]) == "False", b[7],
         "expected RaggedArray(concat, lengths=.., error_checking=False)")
    al, _ = pure(kw["lengths"], env, "LN")
    text_is(b[8], "(owner_rank, local_index) = ra.where(a == global_index)")
    text_is(b[9], "(owner_rank, local_index) = (owner_rank[0], local_index[0])")
    text_is(b[10], "assert local_index >= 0")
    out += ["(* ---- %s: randind *)" % OPS]
    return dict(ns=ns, empty=empty, drawer=drawer, bound=bound, root=root, elt=elt, al=al)


def do_randind_full(tree, out):
    fn = find_func(tree, "randind", OPS)
    body = strip_doc(list(fn.body))
    need(isinstance(body[-1], ast.Return) and U(body[-1]) == norm("return (owner_rank, local_index)"), fn,
         "randind: expected `return (owner_rank, local_index)`")
    keep = fn.body
    fn.body = body[:-1]
    try:
        d = do_randind(tree, out)
    finally:
        fn.body = keep
    out += ["Definition gen_randind_n_states {A} (locals : list (list A)) : list nat :=",
            "  allgather (map (fun local_array => %s) locals)." % d["ns"],
            "Definition gen_randind_empty (n_states : list nat) : bool := %s." % d["empty"],
            "(* the rank that draws, the exclusive bound of its randint, and the root of the broadcast of the draw *)",
            "Definition gen_randind_drawer : nat := %s." % d["drawer"],
            "Definition gen_randind_bound (n_states : list nat) : nat := %s." % d["bound"],
            "Definition gen_randind_root : nat := %s." % d["root"],
            "Definition gen_randind (size : nat) (n_states : list nat) (global_index : nat) : option (nat * nat) :=",
            "  if gen_randind_empty n_states then None",
            "  else let concat_ := concat (map (fun r => %s) (py_range size)) in" % d["elt"],
            "       let a := ra_make_unchecked concat_ %s in" % d["al"],
            "       ra_where_first a global_index.",
            ""]


# ============================================================================ kcenters.py
DF_KW = ["data", "owner_rank", "world_index"]


def df_call(e, data_text, env):
    """mpi.ops.distribute_frame(data=.., world_index=.., owner_rank=..) -> (world_index term, owner_rank term)"""
    _, kw = call_of(e, "mpi.ops.distribute_frame", 0, DF_KW)
    need(U(kw["data"]) == data_text, e, "expected data=%s" % data_text)
    wi, _ = pure(kw["world_index"], env, "N")
    ow, _ = pure(kw["owner_rank"], env, "N")
    return wi, ow


def do_kc_iteration(tree, out):
    fn = find_func(tree, "_kcenters_iteration_mpi", KC)
    sig(fn, ["traj", "distance_method", "distances", "assignments", "center_inds", "centers", "use_triangle_inequality"],
        ["False"])
    b = quiet(fn.body)
    need(len(b) == 12, fn, "_kcenters_iteration_mpi: expected 12 statements, found %d" % len(b))
    text_is(b[0], "assert len(traj) == len(distances)")
    text_is(b[1], "assert len(traj) == len(assignments)")
    text_is(b[2], "assert np.issubdtype(type(assignments[0]), np.integer)")
    ch = b[3]
    need(isinstance(ch, ast.If) and len(ch.body) == 2 and len(ch.orelse) == 3, ch, "expected the cold / gathered choice")
    cold, _ = pure(ch.test, {"center_inds": "LA"}, "B")
    cold_vals = {}
    for s in ch.body:
        need(isinstance(s, ast.Assign) and len(s.targets) == 1 and isinstance(s.targets[0], ast.Name), s, "expected an assignment")
        cold_vals[s.targets[0].id] = pure(s.value, {}, "N")[0]
    need(sorted(cold_vals) == ["new_cluster_center_index", "new_cluster_center_owner"], ch, "unexpected cold-start assignments")
    g = timed_body(ch.orelse[0], "Gathered")
    need(len(g) == 2, ch.orelse[0], "expected dist_locs / dist_vals")
    gathered = {}
    for s, name in zip(g, ("dist_locs", "dist_vals")):
        args, _ = call_of(assign_to(s, name), "np.array", 1, [])
        arg, kw = collective(args[0], "allgather", None)
        need(not kw, s, "allgather takes no keyword")
        gathered[name] = opt(arg, {"distances": "LQ"})
    need(gathered["dist_locs"][1] == "N" and gathered["dist_vals"][1] == "Q", ch,
         "dist_locs must gather positions and dist_vals values")
    envc = {"dist_locs": "LN", "dist_vals": "LQ"}
    tr_ = Tr(envc)
    own, _ = tr_.go(assign_to(ch.orelse[1], "new_cluster_center_owner"), "N")
    tr_.env["new_cluster_center_owner"] = "N"
    idx, _ = tr_.go(assign_to(ch.orelse[2], "new_cluster_center_index"), "N")
    need(len(tr_.binds) == 2, ch, "expected owner = np.argmax(..); index = ..[..]")
    # rename the bound variables to the source's names
    (v1, t1), (v2, t2) = tr_.binds
    need(own == v1 and idx == v2, ch, "unexpected shape of the owner / index assignments")
    t2 = t2.replace(v1, "new_cluster_center_owner")
    dfb = timed_body(b[4], "Distributed")
    need(len(dfb) == 1, b[4], "expected new_center = mpi.ops.distribute_frame(...)")
    envp = {"new_cluster_center_owner": "N", "new_cluster_center_index": "N"}
    wi, ow = df_call(assign_to(dfb[0], "new_center"), "traj", envp)
    cb = timed_body(b[5], "Computed")
    need(len(cb) == 1 and isinstance(cb[0], ast.If) and U(cb[0].test) == "use_triangle_inequality and np.all(assignments >= 0)"
         and len(cb[0].orelse) == 1, b[5], "expected the triangle-inequality branch")
    text_is(cb[0].orelse[0], "new_dists = distance_method(traj, new_center)")
    tb = quiet(cb[0].body)
    need(len(tb) == 4, cb[0], "expected 4 statements in the triangle-inequality branch")
    text_is(tb[0], "cc_dists = _center_distances(distance_method, centers, new_center)")
    cd = find_func(tree, "_center_distances", KC)
    sig(cd, ["distance_method", "centers", "new_center"], [])
    need([U(x) for x in quiet(cd.body)] == [norm(
        "if hasattr(centers[0], 'xyz'):\n    return np.array([distance_method(c, new_center).item() for c in centers])\n"
        "else:\n    return distance_method(np.array(centers), new_center)")], cd, "_center_distances differs from its pinned text")
    rec = assign_to(tb[1], "recompute_dists")
    need(isinstance(rec, ast.Compare) and len(rec.ops) == 1 and U(rec.left) == "distances"
         and isinstance(rec.comparators[0], ast.BinOp) and U(rec.comparators[0].left) == "cc_dists[assignments]"
         and isinstance(rec.comparators[0].right, ast.Constant) and type(rec.comparators[0].right.value) is int
         and rec.comparators[0].right.value > 0 and isinstance(rec.comparators[0].op, ast.Div)
         and type(rec.ops[0]) in QCMP, rec, "expected recompute_dists = distances <op> cc_dists[assignments] / <k>")
    recompute = QCMP[type(rec.ops[0])] % {"a": "d", "b": "(cc / (Qmake %d 1))" % rec.comparators[0].right.value}
    text_is(tb[2], "new_dists = distances.copy()")
    text_is(tb[3], "new_dists[recompute_dists] = distance_method(traj[recompute_dists], new_center)")
    text_is(b[6], "assert len(distances.shape) == len(new_dists.shape)")
    improves, _ = pure(assign_to(b[7], "inds"), {"new_dists": "Q", "distances": "Q"}, "B")
    text_is(b[8], "distances[inds] = new_dists[inds]")
    need(isinstance(b[9], ast.Assign) and U(b[9].targets[0]) == "assignments[inds]", b[9], "expected assignments[inds] = ...")
    label, _ = pure(b[9].value, {"center_inds": "LA"}, "N")
    ap = b[10]
    need(isinstance(ap, ast.Expr), ap, "expected center_inds.append(...)")
    args, _ = call_of(ap.value, "center_inds.append", 1, [])
    pair, _ = pure(args[0], envp, "PNN")
    text_is(b[11], "return (new_center, distances, assignments, center_inds)")
    out += ["(* ---- %s: _kcenters_iteration_mpi *)" % KC,
            "Definition gen_kci_cold {A} (center_inds : list A) : bool := %s." % cold,
            "Definition gen_kci_cold_owner : nat := %s." % cold_vals["new_cluster_center_owner"],
            "Definition gen_kci_cold_index : nat := %s." % cold_vals["new_cluster_center_index"],
            "(* the pair appended to center_inds, from the gathered local argmax / max *)",
            "Definition gen_kci_pair (new_cluster_center_owner new_cluster_center_index : nat) : nat * nat := %s." % pair,
            "Definition gen_kci_choice (dists : list (list Q)) : option (nat * nat) :=",
            "  obind (on_ranks (fun distances => %s) dists) (fun dist_locs =>" % gathered["dist_locs"][0],
            "  obind (on_ranks (fun distances => %s) dists) (fun dist_vals =>" % gathered["dist_vals"][0],
            "  obind %s (fun new_cluster_center_owner =>" % t1,
            "  obind %s (fun new_cluster_center_index =>" % t2,
            "  Some (new_cluster_center_owner, new_cluster_center_index))))).",
            "(* new_center = mpi.ops.distribute_frame(data=traj, world_index=.., owner_rank=..) *)",
            "Definition gen_kci_new_center {A} (size : nat) (trajs : list (list A))",
            "           (new_cluster_center_owner new_cluster_center_index : nat) : option A :=",
            "  gen_distribute_frame size trajs %s %s." % (wi, ow),
            "Definition gen_kci_ti_recompute (d cc : Q) : bool := %s." % recompute,
            "Definition gen_kci_improves (new_dists distances : Q) : bool := %s." % improves,
            "Definition gen_kci_label {A} (center_inds : list A) : nat := %s." % label,
            "(* one iteration with len(center_inds) > 0 on all ranks at once (the frame broadcast is named by its record) *)",
            "Definition gen_kc_iter_mpi (D : nat -> nat -> Q) (ti : bool) (ds : dstate) : option dstate :=",
            "  let size := length (dloc ds) in",
            "  if gen_kci_cold (dctr ds) then None",
            "  else obind (gen_kci_choice (map (map dist) (dloc ds))) (fun oi =>",
            "       obind (gen_kci_new_center size (dloc ds) (fst oi) (snd oi)) (fun m =>",
            "       let c := fid m in let k := gen_kci_label (dctr ds) in",
            "       Some (mkds (dctr ds ++ [gen_kci_pair (fst oi) (snd oi)]) (dcid ds ++ [c])",
            "                  (map (map (if ti then kc_update_ti_skel D gen_kci_ti_recompute gen_kci_improves (dcid ds) c k",
            "                             else kc_update_skel D gen_kci_improves c k)) (dloc ds))))).",
            ""]


def do_kcenters(tree, out):
    fn = find_func(tree, "kcenters", KC)
    body = quiet(fn.body)
    md = [s for s in ast.walk(fn) if isinstance(s, ast.Assign) and U(s.targets[0]) == "maxdist"]
    need(len(md) == 2, fn, "kcenters: expected two assignments to maxdist")
    srcs = set()
    for s in md:
        v = s.value
        need(isinstance(v, ast.IfExp) and U(v.test) == "mpi_mode" and U(v.orelse) == "distances.max()", s,
             "expected maxdist = (<mpi> if mpi_mode else distances.max())")
        args, _ = call_of(v.body, "mpi.ops.striped_array_max", 1, [])
        need(U(args[0]) == "distances", s, "expected striped_array_max(distances)")
        srcs.add(U(v.body))
    need(len(srcs) == 1, fn, "the two maxdist expressions differ")
    wh = [s for s in body if isinstance(s, ast.While)]
    need(len(wh) == 1, fn, "expected one while loop")
    wb = quiet(wh[0].body)
    need(len(wb) == 4 and wb[2] is md[1] and body[body.index(wh[0]) - 1] is md[0], wh[0],
         "kcenters: maxdist must be computed right before the loop and after each iteration")
    text_is(wb[0], "(new_center, distances, assignments, center_inds) = iteration(traj, distance_method, distances, "
                   "assignments, ctr_inds, use_triangle_inequality=use_triangle_inequality, **kwargs)")
    text_is(wb[1], "centers.append(new_center)")
    text_is(wb[3], "if mpi.rank() == 0:\n    logger.info('Center %s gives max dist of %.6f (stopping @ d=%.6f/n=%s).', "
                   "len(center_inds), maxdist, dist_cutoff, n_clusters)")
    sel = body[body.index(wh[0]) - 2]
    text_is(sel, "kwargs = {'centers': centers}")
    text_is(body[body.index(wh[0]) - 3], "if mpi_mode:\n    iteration = _kcenters_iteration_mpi\nelse:\n    iteration = _kcenters_iteration")
    init = body[body.index(wh[0]) - 4]
    need(isinstance(init, ast.If) and U(init.test) == "init_centers is None", init, "expected `if init_centers is None`")
    need([U(s) for s in init.body] == ["ctr_inds = []", "centers = []", "assignments = np.full(len(traj), -1, dtype=int)",
                                       "distances = np.full(len(traj), np.inf, dtype=float)"], init,
         "unexpected cold initialisation of kcenters")
    wb_ = quiet(init.orelse)
    need(len(wb_) == 3, init, "unexpected warm start of kcenters")
    text_is(wb_[0], "centers = [c for c in init_centers]")
    text_is(wb_[1], "(assignments, distances) = util.assign_to_nearest_center(traj, centers, distance_method)")
    text_is(wb_[2], "if mpi_mode:\n    ctr_inds = _find_cluster_centers_mpi(assignments, distances)\n"
                    "else:\n    ctr_inds = list(util.find_cluster_centers(assignments, distances))")
    # the warm-start election is pinned as text (model: Model/Mpi.v warm_pair / first_min_rank)
    fw = find_func(tree, "_find_cluster_centers_mpi", KC)
    sig(fw, ["assignments", "distances"], [])
    need([U(s) for s in quiet(fw.body)] == [norm(x) for x in (
        "local = {}",
        "for i in util.find_cluster_centers(assignments, distances):\n    local[int(assignments[i])] = (float(distances[i]), int(i))",
        "gathered = mpi.comm.allgather(local)",
        "center_inds = []",
        "for label in sorted(set().union(*gathered)):\n"
        "    owner = min((r for r in range(len(gathered)) if label in gathered[r]), key=lambda r: gathered[r][label][0])\n"
        "    center_inds.append((owner, gathered[owner][label][1]))",
        "return center_inds")], fw, "_find_cluster_centers_mpi differs from its pinned text")
    # the while test (the same reading as translator/tr_kcguard.py; regenerated here so that Gen/MpiGen.v does not
    # depend on another property's generated file)
    t = wh[0].test
    need(isinstance(t, ast.BoolOp) and len(t.values) == 2, t, "expected a conjunction/disjunction of two comparisons")
    conn = "andb" if isinstance(t.op, ast.And) else "orb"
    c1, c2 = t.values
    CM = {ast.Lt: "lt", ast.LtE: "le", ast.Gt: "gt", ast.GtE: "ge"}
    need(isinstance(c1, ast.Compare) and len(c1.ops) == 1 and U(c1.left) == "len(ctr_inds)"
         and U(c1.comparators[0]) == "n_clusters" and type(c1.ops[0]) in CM
         and isinstance(c2, ast.Compare) and len(c2.ops) == 1 and U(c2.left) == "maxdist"
         and U(c2.comparators[0]) == "dist_cutoff" and type(c2.ops[0]) in CM, t, "unexpected while test")
    out += ["(* ---- %s: kcenters, mpi_mode *)" % KC,
            "(* maxdist = mpi.ops.striped_array_max(distances) before the loop and after every iteration *)",
            "Definition gen_kc_maxdist_mpi (dists : list (list Q)) : option Q := gen_striped_array_max dists.",
            "(* while %s *)" % U(t),
            "Definition gen_kc_while (n_ctrs : nat) (nclu : option nat) (maxdist cutoff : Q) : bool :=",
            "  %s (cmp_count_%s n_ctrs nclu) (cmp_q_%s maxdist cutoff)." % (conn, CM[type(c1.ops[0])], CM[type(c2.ops[0])]),
            "Definition gen_kc_guard_mpi (nclu : option nat) (cutoff : Q) (ds : dstate) : option bool :=",
            "  option_map (fun maxdist => gen_kc_while (length (dctr ds)) nclu maxdist cutoff) (gen_kc_maxdist_mpi (dists_of ds)).",
            "(* the loop: test, iteration, test, ... (fuel = an upper bound on the number of iterations) *)",
            "Fixpoint gen_kc_loop_mpi (D : nat -> nat -> Q) (fuel : nat) (nclu : option nat) (cutoff : Q) (ti : bool) (ds : dstate)",
            "  : option dstate :=",
            "  match fuel with",
            "  | O => Some ds",
            "  | S fuel' =>",
            "      match gen_kc_guard_mpi nclu cutoff ds with",
            "      | None => None",
            "      | Some false => Some ds",
            "      | Some true => match gen_kc_iter_mpi D ti ds with",
            "                     | None => None",
            "                     | Some ds' => gen_kc_loop_mpi D fuel' nclu cutoff ti ds'",
            "                     end",
            "      end",
            "  end.",
            "(* cold start (first iteration: every distance is +inf, see gen_kci_cold_owner, gen_kci_cold_index), then the loop *)",
            "Definition gen_kcenters_mpi (D : nat -> nat -> Q) (P : nat) (lens : list nat) (nclu : option nat) (cutoff : Q) (ti : bool)",
            "  : option dstate :=",
            "  match kc_first_mpi D (scatter P lens (seq 0 (sum_nat lens))) with",
            "  | None => None",
            "  | Some ds => gen_kc_loop_mpi D (S (sum_nat lens)) nclu cutoff ti ds",
            "  end.",
            ""]


# ============================================================================ kmedoids.py
def do_ctr_ids(tree, out):
    fn = find_func(tree, "ctr_ids_mpi", KM)
    sig(fn, ["cluster_center_inds", "lengths"], [])
    b = quiet(fn.body)
    need(len(b) == 6, fn, "ctr_ids_mpi: expected 6 statements, found %d" % len(b))
    need(U(assign_to(b[0], "num_procs")) == "mpi.size()", b[0], "expected num_procs = mpi.size()")
    text_is(b[1], "updated_ctr_inds = []")
    env = {"lengths": "LN", "num_procs": "N"}
    args, kw = call_of(assign_to(b[2], "global_inds"), "ra.RaggedArray", 1, ["lengths"])
    gd, _ = pure(args[0], env, "LN")
    gl, _ = pure(kw["lengths"], env, "LN")
    fl = b[3]
    need(isinstance(fl, ast.If) and not fl.orelse and len(fl.body) == 1
         and U(fl.test) == "not hasattr(cluster_center_inds[0], '__len__')", fl, "expected the flat-index branch")
    lc = assign_to(fl.body[0], "cluster_center_inds")
    need(isinstance(lc, ast.ListComp) and len(lc.generators) == 1 and not lc.generators[0].ifs
         and U(lc.generators[0].target) == "c" and U(lc.generators[0].iter) == "cluster_center_inds"
         and isinstance(lc.elt, ast.List) and len(lc.elt.elts) == 2, lc, "expected [[.., ..] for c in cluster_center_inds]")
    comps = []
    for x in lc.elt.elts:
        t = U(x)
        need(t in ("ra.where(global_inds == c)[0][0]", "ra.where(global_inds == c)[1][0]"), x,
             "expected ra.where(global_inds == c)[k][0]")
        comps.append("fst rc" if "[0][0]" in t else "snd rc")
    lp = b[4]
    need(isinstance(lp, ast.For) and not lp.orelse and U(lp.target) == "pair" and U(lp.iter) == "cluster_center_inds", lp,
         "expected `for pair in cluster_center_inds`")
    lb = quiet(lp.body)
    need(len(lb) == 7, lp, "ctr_ids_mpi: expected 7 statements in the loop, found %d" % len(lb))
    need(isinstance(lb[0], ast.Assign) and isinstance(lb[0].targets[0], ast.Tuple) and U(lb[0].value) == "pair"
         and sorted(U(x) for x in lb[0].targets[0].elts) == ["frame_id", "global_traj_id"], lb[0],
         "expected `global_traj_id, frame_id = pair`")
    names = [U(x) for x in lb[0].targets[0].elts]
    tr_ = Tr({"lengths": "LN", "num_procs": "N", "global_traj_id": "N", "frame_id": "N", "global_inds": "RN"})
    lets = []
    r, _ = tr_.go(assign_to(lb[1], "mpi_rank"), "N")
    lets.append(("mpi_rank", r, len(tr_.binds)))
    tr_.env["mpi_rank"] = "N"
    o, _ = tr_.go(assign_to(lb[2], "trajs_owned"), "RN")
    lets.append(("trajs_owned", o, len(tr_.binds)))
    tr_.env["trajs_owned"] = "RN"
    args, kw = call_of(assign_to(lb[3], "trajs_owned_local_inds"), "ra.RaggedArray", 1, ["lengths"])
    d2, _ = tr_.go(args[0], "LN")
    l2, _ = tr_.go(kw["lengths"], "LN")
    need(len(tr_.binds) == 1, lb[3], "unexpected local numbering")
    tr_.n += 1
    tr_.binds.append(("trajs_owned_local_inds", "(ra_make %s %s)" % (d2, l2)))
    tr_.env["trajs_owned_local_inds"] = "RN"
    lt, _ = tr_.go(assign_to(lb[4], "local_trj_id"), "N")
    lets.append(("local_trj_id", lt, len(tr_.binds)))
    tr_.env["local_trj_id"] = "N"
    ci, _ = tr_.go(assign_to(lb[5], "concat_idx"), "N")
    lets.append(("concat_idx", ci, len(tr_.binds)))
    tr_.env["concat_idx"] = "N"
    ap = lb[6]
    need(isinstance(ap, ast.Expr), ap, "expected updated_ctr_inds.append(...)")
    args, _ = call_of(ap.value, "updated_ctr_inds.append", 1, [])
    res, _ = tr_.go(args[0], "PNN")
    need(len(tr_.binds) == 4, lp, "unexpected number of partial operations in ctr_ids_mpi (%d)" % len(tr_.binds))
    # interleave lets and binds in program order
    body = "Some %s" % res
    seq = []
    bi = 0
    for name, term, nb in lets:
        while bi < nb:
            seq.append(("bind",) + tr_.binds[bi])
            bi += 1
        seq.append(("let", name, term))
    while bi < len(tr_.binds):
        seq.append(("bind",) + tr_.binds[bi])
        bi += 1
    for kind, name, term in reversed(seq):
        if kind == "let":
            body = "let %s := %s in\n    %s" % (name, term, body)
        else:
            body = "obind %s (fun %s =>\n    %s)" % (term, name, body)
    text_is(b[5], "return updated_ctr_inds")
    out += ["(* ---- %s: ctr_ids_mpi *)" % KM,
            "Definition gen_cim_global_inds (lengths : list nat) : option (list (list nat)) := ra_make %s %s." % (gd, gl),
            "(* [ra.where(global_inds == c)[..][0], ra.where(global_inds == c)[..][0]] *)",
            "Definition gen_cim_locate (lengths : list nat) (c : nat) : option (nat * nat) :=",
            "  obind (gen_cim_global_inds lengths) (fun global_inds =>",
            "  option_map (fun rc => (%s, %s)) (ra_where_first global_inds c))." % tuple(comps),
            "(* %s, %s = pair *)" % tuple(names),
            "Definition gen_cim_pair (num_procs : nat) (lengths : list nat) (pair : nat * nat) : option (nat * nat) :=",
            "  let '(%s, %s) := pair in" % tuple(names),
            "  obind (gen_cim_global_inds lengths) (fun global_inds =>",
            "    %s)." % body,
            "Definition gen_ctr_ids_mpi_flat (num_procs : nat) (lengths : list nat) (c : nat) : option (nat * nat) :=",
            "  obind (gen_cim_locate lengths c) (gen_cim_pair num_procs lengths).",
            ""]


def do_pam(tree, out):
    fn = find_func(tree, "_msq", KM)
    sig(fn, ["x"], [])
    b = quiet(fn.body)
    need(len(b) == 1 and isinstance(b[0], ast.Return), fn, "_msq: expected one return")
    args, _ = call_of(b[0].value, "mpi.ops.striped_array_mean", 1, [])
    sq, _ = pure(args[0], {"x": "LQ"}, "LQ")
    # ---------------- _propose_new_center_amongst (mpi branch)
    fn = find_func(tree, "_propose_new_center_amongst", KM)
    sig(fn, ["X", "state_inds", "mpi_mode", "random_state"], [])
    b = quiet(fn.body)
    need(len(b) == 3, fn, "_propose_new_center_amongst: expected 3 statements, found %d" % len(b))
    text_is(b[0], "random_state = check_random_state(random_state)")
    br = b[1]
    need(isinstance(br, ast.If) and U(br.test) == "mpi_mode", br, "expected `if mpi_mode`")
    need([U(s) for s in br.orelse] == ["proposed_center_ind = random_state.choice(state_inds)",
                                       "proposed_center = X[proposed_center_ind]"], br, "unexpected serial proposal")
    mb = quiet(br.body)
    need(len(mb) == 4, br, "expected 4 statements in the MPI proposal, found %d" % len(mb))
    text_is(mb[0], "(r, idx) = mpi.ops.randind(state_inds, random_state)")
    sn = mb[1]
    need(isinstance(sn, ast.If) and len(sn.body) == 1 and len(sn.orelse) == 1, sn, "expected the sender test")
    env = {"rank": "N", "r": "N", "idx": "N", "size": "N"}
    sender, _ = pure(sn.test, env, "B")
    arg, kw = collective(assign_to(sn.body[0], "i"), "bcast", None)
    need(set(kw) == {"root"}, sn, "expected bcast(.., root=..)")
    payload, _ = opt(arg, {"state_inds": "LN", "idx": "N", "r": "N"}, "N")
    root1, _ = pure(kw["root"], env, "N")
    arg2, kw2 = collective(assign_to(sn.orelse[0], "i"), "bcast", None)
    need(U(arg2) == "None" and set(kw2) == {"root"}, sn, "expected bcast(None, root=..)")
    root2, _ = pure(kw2["root"], env, "N")
    need(root1 == root2, sn, "sender and receivers name different roots")
    envp = {"r": "N", "i": "N", "idx": "N"}
    wi, ow = df_call(assign_to(mb[2], "proposed_center"), "X", envp)
    ind, _ = pure(assign_to(mb[3], "proposed_center_ind"), envp, "PNN")
    text_is(b[2], "return (proposed_center, proposed_center_ind)")
    # ---------------- _kmedoids_pam_update: the MPI-specific statements
    fn = find_func(tree, "_kmedoids_pam_update", KM)
    names = [a.arg for a in fn.args.args]
    dflt = dict(zip(names[len(names) - len(fn.args.defaults):], [U(d) for d in fn.args.defaults]))
    need(names == ["X", "metric", "medoid_inds", "assignments", "distances", "proposals", "cost", "random_state"]
         and dflt == {"proposals": "None", "cost": "_msq", "random_state": "None"}, fn,
         "unexpected signature of _kmedoids_pam_update (cost must default to _msq)")
    calls = [n for n in ast.walk(find_func(tree, "_kmedoids_iterations", KM)) if isinstance(n, ast.Call)
             and U(n.func) == "_kmedoids_pam_update"]
    need(len(calls) == 1 and "cost" not in [k.arg for k in calls[0].keywords] and len(calls[0].args) <= 5, fn,
         "_kmedoids_iterations must call _kmedoids_pam_update with the default cost")
    stm = {U(s): s for s in ast.walk(fn) if isinstance(s, ast.stmt)}
    for t in ("medoid_inds = medoid_inds.copy()",
              "state_inds = np.where(assignments == cid)[0]",
              "new_ctr_dist = metric(X, proposed_center)",
              "new_medoids = medoid_coords.copy()",
              "new_medoids[cid] = proposed_center",
              "(ambig_assigs, ambig_dists) = util.assign_to_nearest_center(X[dst_up_assig_this], new_medoids, metric)",
              "old_cost = cost(distances)",
              "new_cost = cost(new_dist)",
              "(distances, assignments) = (new_dist, new_assig)",
              "medoid_coords = new_medoids",
              "medoid_inds[cid] = proposed_center_ind",
              "return (medoid_inds, distances, assignments, medoid_coords)",
              "(proposed_center, proposed_center_ind) = _propose_new_center_amongst(X, state_inds, "
              "mpi_mode=hasattr(medoid_inds[0], '__len__'), random_state=random_state)"):
        need(norm(t) in stm, fn, "_kmedoids_pam_update: missing statement `%s`" % t)
    loops = [s for s in ast.walk(fn) if isinstance(s, ast.For) and U(s.iter) == "range(len(medoid_inds))"]
    need(len(loops) == 1 and U(loops[0].target) == "cid", fn, "expected `for cid in range(len(medoid_inds))`")
    acc = [s for s in ast.walk(loops[0]) if isinstance(s, ast.If) and U(s.test).startswith("new_cost ")]
    need(len(acc) == 1, fn, "expected one `if new_cost <op> old_cost`")
    accept, _ = pure(acc[0].test, {"new_cost": "Q", "old_cost": "Q"}, "B")
    ab = [U(s) for s in quiet(acc[0].body)]
    need(ab == [norm("(distances, assignments) = (new_dist, new_assig)"), "medoid_coords = new_medoids",
                "medoid_inds[cid] = proposed_center_ind", "acceptances += 1"] and not quiet(acc[0].orelse), acc[0],
         "unexpected accept branch")
    # medoid coordinates and explicit proposals are fetched with distribute_frame
    mc = [s for s in ast.walk(fn) if isinstance(s, ast.For) and U(s.iter) == "enumerate(medoid_inds)"]
    need(len(mc) == 1 and U(mc[0].target) == "(center_idx, (rank, frame_idx))", fn, "expected the medoid coordinate loop")
    mcb = quiet(mc[0].body)
    need(len(mcb) == 3, mc[0], "expected 3 statements in the medoid coordinate loop")
    text_is(mcb[0], "assert rank < mpi.size()")
    mwi, mow = df_call(assign_to(mcb[1], "new_center"), "X", {"rank": "N", "frame_idx": "N"})
    text_is(mcb[2], "medoid_coords.append(new_center)")
    pr = [s for s in ast.walk(fn) if isinstance(s, ast.If) and U(s.test) == "hasattr(proposed_center_ind, '__len__')"]
    need(len(pr) == 1 and len(pr[0].body) == 1 and len(pr[0].orelse) == 1
         and U(pr[0].orelse[0]) == "proposed_center = X[proposed_center_ind]", fn, "expected the explicit-proposal branch")
    e = copy.deepcopy(assign_to(pr[0].body[0], "proposed_center"))

    class Rn(ast.NodeTransformer):
        def visit_Subscript(self, n):
            if U(n) == "proposed_center_ind[0]":
                return ast.Name(id="prop_0", ctx=ast.Load())
            if U(n) == "proposed_center_ind[1]":
                return ast.Name(id="prop_1", ctx=ast.Load())
            return n
    pwi, pow_ = df_call(Rn().visit(e), "X", {"prop_0": "N", "prop_1": "N"})
    out += ["(* ---- %s: _msq, _propose_new_center_amongst, _kmedoids_pam_update (MPI branches) *)" % KM,
            "Definition gen_msq (size : nat) (locals : list (list Q)) : option Q :=",
            "  gen_striped_array_mean size (map (fun x => %s) locals)." % sq,
            "Definition gen_prop_is_sender (size rank r idx : nat) : bool := %s." % sender,
            "Definition gen_prop_root (size r idx : nat) : nat := let rank := 0%%nat in %s." % root1,
            "Definition gen_prop_payload (state_inds : list nat) (r idx : nat) : option nat := %s." % payload,
            "Definition gen_prop_ind (r idx i : nat) : nat * nat := %s." % ind,
            "Definition gen_prop_frame_index (r idx i : nat) : nat := %s." % wi,
            "Definition gen_prop_frame_owner (r idx i : nat) : nat := %s." % ow,
            "(* (r, idx) = randind(state_inds); i = bcast(state_inds[idx] on the sender, None elsewhere, root);",
            "   proposed_center_ind = (r, i): state_inds = each rank's where(assignments == cid), g = the drawer's randint *)",
            "Definition gen_propose_mpi (size : nat) (state_inds : list (list nat)) (g : nat) : option (nat * nat) :=",
            "  obind (gen_randind size (gen_randind_n_states state_inds) g) (fun ri =>",
            "  let r := fst ri in let idx := snd ri in",
            "  obind (bcast_opt (map (fun rs => if gen_prop_is_sender size (fst rs) r idx then gen_prop_payload (snd rs) r idx else None)",
            "                        (with_rank state_inds)) (gen_prop_root size r idx)) (fun oi =>",
            "  obind oi (fun i => Some (gen_prop_ind r idx i)))).",
            "(* medoid_coords: distribute_frame(data=X, owner_rank=.., world_index=..) for (rank, frame_idx) in medoid_inds *)",
            "Definition gen_pam_medoid_coord {A} (size : nat) (Xs : list (list A)) (rank frame_idx : nat) : option A :=",
            "  gen_distribute_frame size Xs %s %s." % (mwi, mow),
            "(* explicit proposals: distribute_frame(data=X, owner_rank=proposed_center_ind[..], world_index=proposed_center_ind[..]) *)",
            "Definition gen_pam_proposal_frame {A} (size : nat) (Xs : list (list A)) (proposed_center_ind : nat * nat) : option A :=",
            "  let prop_0 := fst proposed_center_ind in let prop_1 := snd proposed_center_ind in",
            "  gen_distribute_frame size Xs %s %s." % (pwi, pow_),
            "(* the frame _propose_new_center_amongst distributes for the pair it returns *)",
            "Definition gen_prop_frame {A} (size : nat) (Xs : list (list A)) (r idx i : nat) : option A :=",
            "  gen_distribute_frame size Xs (gen_prop_frame_index r idx i) (gen_prop_frame_owner r idx i).",
            "Definition gen_pam_accept (new_cost old_cost : Q) : bool := %s." % accept,
            "(* one PAM step in MPI mode for the proposal `prop`: the per-frame three-way reassignment is the serial one",
            "   (Model/Cluster.v pam_frame; its masks are regenerated for C09 in Gen/ClusterGen.v), cost = _msq,",
            "   accept test, medoid_inds[cid] = proposal *)",
            "Definition gen_pam_update_mpi (D : nat -> nat -> Q) (ds : dstate) (cid : nat) (prop : nat * nat) : option dstate :=",
            "  let size := length (dloc ds) in",
            "  obind (gen_pam_proposal_frame size (dloc ds) prop) (fun m =>",
            "  let p := fid m in let cs' := replace_nth cid p (dcid ds) in",
            "  let locs' := map (map (pam_frame D cid p cs')) (dloc ds) in",
            "  obind (gen_msq size (map (map dist) locs')) (fun new_cost =>",
            "  obind (gen_msq size (map (map dist) (dloc ds))) (fun old_cost =>",
            "  if gen_pam_accept new_cost old_cost then Some (mkds (replace_nth cid prop (dctr ds)) cs' locs') else Some ds))).",
            ""]


def translate(repo):
    out = ["(* GENERATED by translator/tr_mpi.py from %s, %s, %s -- do not edit *)" % (OPS, KC, KM),
           "From Coq Require Import List ZArith QArith Bool Arith.",
           "From EV Require Import PySlice KcGuardBase Cluster ClusterSkel Mpi MpiGenBase.",
           "Import ListNotations.", ""]
    tree, _ = parse_file(repo, OPS)
    known = {"convert_local_indices", "assemble_striped_array", "assemble_striped_ragged_array", "striped_array_max",
             "striped_array_mean", "distribute_frame", "randind"}
    defs = {n.name for n in tree.body if isinstance(n, (ast.FunctionDef, ast.AsyncFunctionDef, ast.ClassDef))}
    need(defs == known, tree.body[0], "enspara/mpi/ops.py: unexpected set of definitions %s" % sorted(defs ^ known))
    for n in tree.body:
        if isinstance(n, (ast.Import, ast.ImportFrom, ast.FunctionDef)):
            continue
        need(U(n) == "logger = logging.getLogger(__name__)", n, "enspara/mpi/ops.py: unexpected module-level statement")
    do_convert_local(tree, out)
    do_assemble_array(tree, out)
    do_assemble_ragged(tree, out)
    do_max_mean(tree, out)
    do_distribute_frame(tree, out)
    do_randind_full(tree, out)
    tree, _ = parse_file(repo, KC)
    do_kc_iteration(tree, out)
    do_kcenters(tree, out)
    tree, _ = parse_file(repo, KM)
    do_ctr_ids(tree, out)
    do_pam(tree, out)
    return {"Gen/MpiGen.v": "\n".join(out)}


if __name__ == "__main__":
    import sys
    print(translate(sys.argv[1] if len(sys.argv) > 1 else "/repo")["Gen/MpiGen.v"])
