"""enspara/tpt/path.py: top_path, _remove_bottleneck, _subtract_path_flux, paths -> Gen/PathGen.v

Fail-closed.  Every function is matched statement by statement against the shape written out below
(the loop / fancy-indexing skeleton of Base/PathBase.v).  A statement is either *fixed* (its text must
be exactly the one listed) or has *holes* -- the scalar logic: comparisons, constants, reductions,
in-place operators, stopping tests.  Holes are translated element-wise by `Sc` into the primitives of
Base/PathBase.v and become the parameters of the skeleton; Proof/PathGenProofs.v proves them equal to
the hand-written model (Model/Paths.v), so a changed comparison (`>` -> `>=`), reduction
(`argmax` -> `argmin`), constant or operator breaks a proof, and any other change of the statements
(an extra statement, a reordering, another way of wiping edges, a write to the caller's matrix above
the copy, np.asarray instead of a copy) raises TranslatorReject.

top_path(sources, sinks, net_flux)
    sources = np.array(sources, dtype=int).reshape((-1,))                          fixed
    sinks = np.array(sinks, dtype=int).reshape((-1,))                              fixed
    n_states = net_flux.shape[0]                                                   fixed
    queue = list(sources)                                                          fixed
    visited = np.zeros(n_states).astype(bool)                                      fixed
    previous_node = np.ones(n_states).astype(int) * -1                             fixed
    min_fluxes = <C0 over np.ones(n_states)>                                       hole: label_other
    min_fluxes[sources] = <C1>                                                     hole: label_source
    while len(queue) > 0:                                                          fixed
        test_node = queue.pop(<I over min_fluxes[queue]>)                          hole: pop_index
        visited[test_node] = True                                                  fixed
        if <T over visited[sinks]>: break                                          hole: exit_test
        neighbors = np.where(<T over net_flux[test_node, :]>)[0]                   hole: neighbor_test
        if len(neighbors) == 0: continue                                           fixed
        new_fluxes = net_flux[test_node, neighbors].flatten()                      fixed
        new_fluxes[np.where(<T>)] = <V>     over new_fluxes, min_fluxes[test_node] hole: clip
        ind = np.where(<T>)   over visited[neighbors], new_fluxes, min_fluxes[neighbors]   hole: relax_test
        min_fluxes[neighbors[ind]] = new_fluxes[ind]                               fixed
        previous_node[neighbors[ind]] = test_node                                  fixed
        queue.extend(neighbors[ind])                                               fixed
    top_path = []                                                                  fixed
    top_path.append(int(sinks[<I over min_fluxes[sinks]>]))                        hole: sink_index
    while previous_node[top_path[-1]] != -1: top_path.append(previous_node[top_path[-1]])   fixed
    return np.array(top_path[::-1]), min_fluxes[top_path[0]]                       fixed
_remove_bottleneck(net_flux, path)
    net_flux = <copy of net_flux>                                                  copy (first statement)
    bottleneck_ind = <I over net_flux[path[:-1], path[1:]]>                        hole: index
    net_flux[path[bottleneck_ind], path[bottleneck_ind + 1]] = <C>                 hole: value
    return net_flux                                                                fixed
_subtract_path_flux(net_flux, path)
    net_flux = <copy of net_flux>                                                  copy (first statement)
    net_flux[path[:-1], path[1:]] <op>= <A over net_flux[path[:-1], path[1:]]>     holes: sub, amount
    bottleneck_ind = <I over net_flux[path[:-1], path[1:]]>                        hole: index
    net_flux[path[bottleneck_ind], path[bottleneck_ind + 1]] = <C>                 hole: value
    return net_flux                                                                fixed
  (exactly ONE cell is assigned after the subtraction: the edge selected by the index hole)
paths(sources, sinks, net_flux, remove_path, num_paths, flux_cutoff)
    if not callable(remove_path): 'subtract' -> _subtract_path_flux,
         'bottleneck' -> _remove_bottleneck, else raise          dispatch; must not mention net_flux
    net_flux = <copy of net_flux>                                                  copy (before any use)
    paths = [] / fluxes = []                                                       fixed
    total_flux = net_flux[sources, :].sum()                                        fixed
    not_done = True                                                                fixed
    counter = <C> / expl_flux = <C>                                                holes: counter0, expl0
    while not_done:                                                                fixed
        path, flux = top_path(sources, sinks, net_flux)                            fixed
        if <T over flux>: break                                                    hole: isinf_test
        paths.append(path) / fluxes.append(flux)                                   fixed
        expl_flux <op>= <E over flux, total_flux>                                  hole: expl_update
        counter += <C>                                                             hole: counter_update
        if <T over counter, num_paths, expl_flux, flux_cutoff>: break              hole: stop_test
        net_flux = remove_path(net_flux, path)                                     fixed
    fluxes = np.array(fluxes)                                                      fixed
    return paths, fluxes                                                           fixed
<copy of net_flux> is one of copy.copy(net_flux), copy.deepcopy(net_flux), net_flux.copy(),
np.copy(net_flux), np.array(net_flux); np.asarray / np.asanyarray / a plain alias are rejected.
"""
import ast
from fractions import Fraction
from pyast import parse_file, find_func, reject, strip_doc

REL = "enspara/tpt/path.py"
COPIES = ("copy.copy(net_flux)", "copy.deepcopy(net_flux)", "net_flux.copy()", "np.copy(net_flux)",
          "np.array(net_flux)")
EDGE_VALS = "net_flux[path[:-1], path[1:]]"


def norm(text):
    return ast.unparse(ast.parse(text))


def fixed(node, text):
    if ast.unparse(node) != norm(text):
        reject(node, "expected the statement `%s`" % text)


def qlit(v):
    fr = Fraction(v)
    return "(Qmake (%d) %d)" % (fr.numerator, fr.denominator)


# ----------------------------------------------------------------------------- scalar expressions
class Sc:
    """Element-wise translation of a NumPy expression.  subst: source text of an array/scalar
    sub-expression -> (Coq term, type).  Types: Q finite double, E double or +-inf, B bool,
    N int counter, NI int or np.inf, I integer literal (python value), LE / LQ / LB 1-D arrays of
    E / Q / B, IDX position (nat)."""
    CMP_E = {ast.Gt: "e_gt", ast.Lt: "e_lt", ast.GtE: "e_ge", ast.LtE: "e_le"}
    CMP_Q = {ast.Gt: "q_gt", ast.Lt: "q_lt", ast.GtE: "q_ge", ast.LtE: "q_le"}
    CMP_N = {ast.Gt: "ninf_gt", ast.Lt: "ninf_lt", ast.GtE: "ninf_ge", ast.LtE: "ninf_le"}
    RED = {("LE", "argmax"): ("argmax_e", "IDX"), ("LQ", "argmin"): ("argmin_q", "IDX"),
           ("LQ", "min"): ("min_q", "Q")}

    def __init__(self, subst):
        self.subst = subst

    def as_e(self, node, s, t):
        if t == "E":
            return s
        if t == "Q":
            return "(Fin %s)" % s
        if t == "I":
            return "(Fin %s)" % qlit(s)
        reject(node, "a number (possibly infinite) expected, found type %s" % t)

    def as_q(self, node, s, t):
        if t == "Q":
            return s
        if t == "I":
            return qlit(s)
        reject(node, "a finite number expected, found type %s" % t)

    def tr(self, e):
        key = ast.unparse(e)
        if key in self.subst:
            return self.subst[key]
        if isinstance(e, ast.Constant):
            v = e.value
            if isinstance(v, bool):
                return ("true" if v else "false"), "B"
            if isinstance(v, int):
                return v, "I"
            if isinstance(v, float) and v == v and v not in (float("inf"), float("-inf")):
                return qlit(v), "Q"
            reject(e, "unsupported constant")
        if isinstance(e, ast.Attribute):
            if key in ("np.inf", "numpy.inf"):
                return "PInf", "E"
            reject(e, "unsupported attribute")
        if isinstance(e, ast.UnaryOp):
            s, t = self.tr(e.operand)
            if isinstance(e.op, ast.USub):
                if t == "I":
                    return -s, "I"
                if t == "E" and s in ("PInf", "NInf"):
                    return ("NInf" if s == "PInf" else "PInf"), "E"
                reject(e, "negation of a non-constant")
            if isinstance(e.op, ast.Not) and t == "B":
                return "(negb %s)" % s, "B"
            reject(e, "unsupported unary operator")
        if isinstance(e, ast.BoolOp):
            parts = []
            for v in e.values:
                s, t = self.tr(v)
                if t != "B":
                    reject(v, "boolean expected")
                parts.append(s)
            op = "andb" if isinstance(e.op, ast.And) else "orb"
            out = parts[0]
            for p_ in parts[1:]:
                out = "(%s %s %s)" % (op, out, p_)
            return out, "B"
        if isinstance(e, ast.BinOp):
            ls, lt = self.tr(e.left)
            rs, rt = self.tr(e.right)
            if isinstance(e.op, (ast.BitAnd, ast.BitOr)):
                if lt != "B" or rt != "B":
                    reject(e, "& and | are translated on boolean arrays only")
                return "(%s %s %s)" % ("andb" if isinstance(e.op, ast.BitAnd) else "orb", ls, rs), "B"
            if isinstance(e.op, ast.Sub) and lt == "I" and ls == 1 and rt == "B":
                return "(negb %s)" % rs, "B"          # 1 - visited[...]
            if isinstance(e.op, ast.Mult):
                if lt == "I" and rt == "I":
                    return ls * rs, "I"
                for (a, at), (b, bt) in (((ls, lt), (rs, rt)), ((rs, rt), (ls, lt))):
                    if at == "I" and bt == "E" and b in ("PInf", "NInf") and a != 0:
                        return (b if a > 0 else ("NInf" if b == "PInf" else "PInf")), "E"
            ops = {ast.Add: "Qplus", ast.Sub: "Qminus", ast.Mult: "Qmult", ast.Div: "Qdiv"}
            if type(e.op) in ops and lt in ("Q", "I") and rt in ("Q", "I") and "Q" in (lt, rt):
                return "(%s %s %s)" % (ops[type(e.op)], self.as_q(e, ls, lt), self.as_q(e, rs, rt)), "Q"
            if isinstance(e.op, ast.Add) and {lt, rt} == {"N", "I"}:
                n_, c = (ls, rs) if lt == "N" else (rs, ls)
                if c < 0:
                    reject(e, "negative increment of a counter")
                return "(%d + %s)%%nat" % (c, n_), "N"
            reject(e, "unsupported arithmetic (%s, %s)" % (lt, rt))
        if isinstance(e, ast.Compare):
            if len(e.ops) != 1:
                reject(e, "chained comparison")
            op = type(e.ops[0])
            ls, lt = self.tr(e.left)
            rs, rt = self.tr(e.comparators[0])
            if lt == "N" and rt == "NI" and op in self.CMP_N:
                return "(%s %s %s)" % (self.CMP_N[op], ls, rs), "B"
            if "E" in (lt, rt) and op in self.CMP_E:
                return "(%s %s %s)" % (self.CMP_E[op], self.as_e(e, ls, lt), self.as_e(e, rs, rt)), "B"
            if "Q" in (lt, rt) and op in self.CMP_Q:
                return "(%s %s %s)" % (self.CMP_Q[op], self.as_q(e, ls, lt), self.as_q(e, rs, rt)), "B"
            reject(e, "unsupported comparison (%s, %s)" % (lt, rt))
        if isinstance(e, ast.Call) and not e.keywords:
            f = e.func
            fname = ast.unparse(f)
            if fname in ("np.isinf",) and len(e.args) == 1:
                s, t = self.tr(e.args[0])
                if t != "E":
                    reject(e, "np.isinf of a value that cannot be infinite in the model")
                return "(is_inf %s)" % s, "B"
            if fname in ("np.all", "np.any") and len(e.args) == 1:
                s, t = self.tr(e.args[0])
                if t != "LB":
                    reject(e, "np.all / np.any of a non-boolean array")
                return "(%s %s)" % ("all_b" if fname == "np.all" else "any_b", s), "B"
            if isinstance(f, ast.Attribute) and not e.args:
                s, t = self.tr(f.value)
                if (t, f.attr) in self.RED:
                    cn, rt = self.RED[(t, f.attr)]
                    return "(%s %s)" % (cn, s), rt
                reject(e, "unsupported reduction .%s() of type %s" % (f.attr, t))
            reject(e, "unsupported call")
        reject(e, "unsupported expression")

    def typed(self, e, want):
        s, t = self.tr(e)
        if want == "E":
            return self.as_e(e, s, t)
        if want == "Q":
            return self.as_q(e, s, t)
        if t != want:
            reject(e, "type %s where %s expected" % (t, want))
        return s


def assign_to(node, target):
    if not (isinstance(node, ast.Assign) and len(node.targets) == 1 and ast.unparse(node.targets[0]) == norm(target)):
        reject(node, "expected an assignment to `%s`" % target)
    return node.value


def break_if(node):
    if not (isinstance(node, ast.If) and not node.orelse and len(node.body) == 1 and isinstance(node.body[0], ast.Break)):
        reject(node, "expected `if <test>: break`")
    return node.test


def where_arg(node):
    """np.where(T) -> T"""
    if not (isinstance(node, ast.Call) and ast.unparse(node.func) == "np.where" and len(node.args) == 1
            and not node.keywords):
        reject(node, "expected np.where(<test>)")
    return node.args[0]


def is_copy(node):
    v = assign_to(node, "net_flux")
    if ast.unparse(v) not in [norm(c) for c in COPIES]:
        reject(node, "the matrix must be copied (one of %s); np.asarray or an alias would let the caller's "
                     "array be modified" % ", ".join(COPIES))


def mentions(node, name):
    return any(isinstance(x, ast.Name) and x.id == name for x in ast.walk(node))


# ----------------------------------------------------------------------------- top_path
def do_top_path(fn):
    if [a.arg for a in fn.args.args] != ["sources", "sinks", "net_flux"] or fn.args.vararg or fn.args.kwarg:
        reject(fn, "unexpected signature of top_path")
    b = strip_doc(fn.body)
    if len(b) != 13:
        reject(fn, "top_path: expected 13 statements, found %d" % len(b))
    fixed(b[0], "sources = np.array(sources, dtype=int).reshape((-1,))")
    fixed(b[1], "sinks = np.array(sinks, dtype=int).reshape((-1,))")
    fixed(b[2], "n_states = net_flux.shape[0]")
    fixed(b[3], "queue = list(sources)")
    fixed(b[4], "visited = np.zeros(n_states).astype(bool)")
    fixed(b[5], "previous_node = np.ones(n_states).astype(int) * -1")
    g = {}
    g["label_other"] = Sc({"np.ones(n_states)": (1, "I")}).typed(assign_to(b[6], "min_fluxes"), "E")
    g["label_source"] = Sc({}).typed(assign_to(b[7], "min_fluxes[sources]"), "E")
    w = b[8]
    if not (isinstance(w, ast.While) and not w.orelse and ast.unparse(w.test) == "len(queue) > 0"):
        reject(w, "expected `while len(queue) > 0:`")
    w = w.body
    if len(w) != 11:
        reject(b[8], "search loop: expected 11 statements, found %d" % len(w))
    v = assign_to(w[0], "test_node")
    if not (isinstance(v, ast.Call) and ast.unparse(v.func) == "queue.pop" and len(v.args) == 1 and not v.keywords):
        reject(w[0], "expected test_node = queue.pop(<index>)")
    g["pop_index"] = Sc({"min_fluxes[queue]": ("mq", "LE")}).typed(v.args[0], "IDX")
    fixed(w[1], "visited[test_node] = True")
    g["exit_test"] = Sc({"visited[sinks]": ("vs", "LB")}).typed(break_if(w[2]), "B")
    v = assign_to(w[3], "neighbors")
    if not (isinstance(v, ast.Subscript) and ast.unparse(v.slice) == "0"):
        reject(w[3], "expected neighbors = np.where(<test>)[0]")
    g["neighbor_test"] = Sc({"net_flux[test_node, :]": ("x", "Q")}).typed(where_arg(v.value), "B")
    fixed(w[4], "if len(neighbors) == 0:\n    continue")
    fixed(w[5], "new_fluxes = net_flux[test_node, neighbors].flatten()")
    s6 = w[6]
    if not (isinstance(s6, ast.Assign) and len(s6.targets) == 1 and isinstance(s6.targets[0], ast.Subscript)
            and ast.unparse(s6.targets[0].value) == "new_fluxes"):
        reject(s6, "expected new_fluxes[np.where(<test>)] = <value>")
    sc = Sc({"new_fluxes": ("(Fin edge)", "E"), "min_fluxes[test_node]": ("up", "E")})
    g["clip"] = "masked %s %s (Fin edge)" % (sc.typed(where_arg(s6.targets[0].slice), "B"), sc.typed(s6.value, "E"))
    sc = Sc({"visited[neighbors]": ("vis_j", "B"), "new_fluxes": ("new_j", "E"), "min_fluxes[neighbors]": ("old_j", "E")})
    g["relax_test"] = sc.typed(where_arg(assign_to(w[7], "ind")), "B")
    fixed(w[8], "min_fluxes[neighbors[ind]] = new_fluxes[ind]")
    fixed(w[9], "previous_node[neighbors[ind]] = test_node")
    fixed(w[10], "queue.extend(neighbors[ind])")
    fixed(b[9], "top_path = []")
    s10 = b[10]
    ok = (isinstance(s10, ast.Expr) and isinstance(s10.value, ast.Call) and ast.unparse(s10.value.func) == "top_path.append"
          and len(s10.value.args) == 1 and not s10.value.keywords)
    if ok:
        a = s10.value.args[0]
        ok = (isinstance(a, ast.Call) and ast.unparse(a.func) == "int" and len(a.args) == 1 and not a.keywords
              and isinstance(a.args[0], ast.Subscript) and ast.unparse(a.args[0].value) == "sinks")
    if not ok:
        reject(s10, "expected top_path.append(int(sinks[<index>]))")
    g["sink_index"] = Sc({"min_fluxes[sinks]": ("ms", "LE")}).typed(a.args[0].slice, "IDX")
    fixed(b[11], "while previous_node[top_path[-1]] != -1:\n    top_path.append(previous_node[top_path[-1]])")
    fixed(b[12], "return np.array(top_path[::-1]), min_fluxes[top_path[0]]")
    return g


# ----------------------------------------------------------------------------- removal schemes
def zero_one_edge(b, g, who):
    """bottleneck_ind = <I>; net_flux[path[bottleneck_ind], path[bottleneck_ind + 1]] = <C>; return net_flux"""
    g["index"] = Sc({EDGE_VALS: ("vals", "LQ")}).typed(assign_to(b[0], "bottleneck_ind"), "IDX")
    g["value"] = Sc({}).typed(assign_to(b[1], "net_flux[path[bottleneck_ind], path[bottleneck_ind + 1]]"), "Q")
    fixed(b[2], "return net_flux")


def do_remove_bottleneck(fn):
    if [a.arg for a in fn.args.args] != ["net_flux", "path"]:
        reject(fn, "unexpected signature of _remove_bottleneck")
    b = strip_doc(fn.body)
    if len(b) != 4:
        reject(fn, "_remove_bottleneck: expected copy; index; one cell set; return (found %d statements)" % len(b))
    is_copy(b[0])
    g = {}
    zero_one_edge(b[1:], g, "_remove_bottleneck")
    return g


def do_subtract(fn):
    if [a.arg for a in fn.args.args] != ["net_flux", "path"]:
        reject(fn, "unexpected signature of _subtract_path_flux")
    b = strip_doc(fn.body)
    if len(b) != 5:
        reject(fn, "_subtract_path_flux: expected copy; in-place subtraction along the path; index; ONE cell "
                   "set; return (found %d statements) -- e.g. a tolerance-based wipe of several edges is not "
                   "the modelled behaviour" % len(b))
    is_copy(b[0])
    s = b[1]
    if not (isinstance(s, ast.AugAssign) and ast.unparse(s.target) == norm(EDGE_VALS)):
        reject(s, "expected `%s <op>= <amount>`" % EDGE_VALS)
    g = {}
    g["amount"] = Sc({EDGE_VALS: ("vals", "LQ")}).typed(s.value, "Q")
    if isinstance(s.op, ast.Sub):
        g["sub"] = "q_sub x m"
    elif isinstance(s.op, ast.Add):
        g["sub"] = "q_add x m"
    else:
        reject(s, "unsupported in-place operator")
    zero_one_edge(b[2:], g, "_subtract_path_flux")
    return g


# ----------------------------------------------------------------------------- paths
def do_paths(fn):
    if [a.arg for a in fn.args.args] != ["sources", "sinks", "net_flux", "remove_path", "num_paths", "flux_cutoff"]:
        reject(fn, "unexpected signature of paths")
    b = strip_doc(fn.body)
    if len(b) != 11:
        reject(fn, "paths: expected 11 statements, found %d (nothing may run before the copy of net_flux "
                   "except the remove_path dispatch)" % len(b))
    # --- dispatch
    d = b[0]
    if mentions(d, "net_flux"):
        reject(d, "net_flux is used before it is copied")
    ok = (isinstance(d, ast.If) and ast.unparse(d.test) == "not callable(remove_path)" and not d.orelse
          and len(d.body) == 1 and isinstance(d.body[0], ast.If))
    if not ok:
        reject(d, "expected the remove_path dispatch")
    table, cur = {}, d.body[0]
    while True:
        t = cur.test
        ok = (isinstance(t, ast.Compare) and len(t.ops) == 1 and isinstance(t.ops[0], ast.Eq)
              and ast.unparse(t.left) == "remove_path" and isinstance(t.comparators[0], ast.Constant)
              and isinstance(t.comparators[0].value, str) and len(cur.body) == 1)
        if not ok:
            reject(cur, "unexpected dispatch test")
        v = assign_to(cur.body[0], "remove_path")
        if not isinstance(v, ast.Name):
            reject(cur.body[0], "expected remove_path = <function name>")
        table[t.comparators[0].value] = v.id
        if len(cur.orelse) == 1 and isinstance(cur.orelse[0], ast.If):
            cur = cur.orelse[0]
            continue
        if not (len(cur.orelse) == 1 and isinstance(cur.orelse[0], ast.Raise)):
            reject(cur, "an unknown scheme name must raise")
        break
    if table != {"subtract": "_subtract_path_flux", "bottleneck": "_remove_bottleneck"}:
        reject(d, "unexpected scheme table %s" % table)
    # --- the copy, before any other use of the caller's matrix
    is_copy(b[1])
    fixed(b[2], "paths = []")
    fixed(b[3], "fluxes = []")
    fixed(b[4], "total_flux = net_flux[sources, :].sum()")
    fixed(b[5], "not_done = True")
    g = {}
    c0 = Sc({}).tr(assign_to(b[6], "counter"))
    if c0[1] != "I" or c0[0] < 0:
        reject(b[6], "counter must start at a non-negative integer literal")
    g["counter0"] = "%d%%nat" % c0[0]
    g["expl0"] = Sc({}).typed(assign_to(b[7], "expl_flux"), "Q")
    w = b[8]
    if not (isinstance(w, ast.While) and not w.orelse and ast.unparse(w.test) == "not_done"):
        reject(w, "expected `while not_done:`")
    w = w.body
    if len(w) != 8:
        reject(b[8], "paths loop: expected 8 statements, found %d" % len(w))
    fixed(w[0], "path, flux = top_path(sources, sinks, net_flux)")
    g["isinf_test"] = Sc({"flux": ("fl", "E")}).typed(break_if(w[1]), "B")
    fixed(w[2], "paths.append(path)")
    fixed(w[3], "fluxes.append(flux)")
    s = w[4]
    if not (isinstance(s, ast.AugAssign) and ast.unparse(s.target) == "expl_flux" and isinstance(s.op, (ast.Add, ast.Sub))):
        reject(s, "expected expl_flux += <expression>")
    rhs = Sc({"flux": ("flux", "Q"), "total_flux": ("total", "Q"), "expl_flux": ("expl", "Q")}).typed(s.value, "Q")
    g["expl_update"] = "%s expl %s" % ("q_add" if isinstance(s.op, ast.Add) else "q_sub", rhs)
    s = w[5]
    if not (isinstance(s, ast.AugAssign) and ast.unparse(s.target) == "counter" and isinstance(s.op, ast.Add)):
        reject(s, "expected counter += <literal>")
    inc = Sc({}).tr(s.value)
    if inc[1] != "I" or inc[0] < 0:
        reject(s, "counter increment must be a non-negative integer literal")
    g["counter_update"] = "(%d + counter)%%nat" % inc[0]
    sc = Sc({"counter": ("counter", "N"), "num_paths": ("num_paths", "NI"), "expl_flux": ("expl", "Q"),
             "flux_cutoff": ("cutoff", "Q")})
    g["stop_test"] = sc.typed(break_if(w[6]), "B")
    fixed(w[7], "net_flux = remove_path(net_flux, path)")
    fixed(b[9], "fluxes = np.array(fluxes)")
    fixed(b[10], "return paths, fluxes")
    return g


def translate(repo):
    tree, _ = parse_file(repo, REL)
    t = do_top_path(find_func(tree, "top_path", REL))
    rb = do_remove_bottleneck(find_func(tree, "_remove_bottleneck", REL))
    sp = do_subtract(find_func(tree, "_subtract_path_flux", REL))
    pa = do_paths(find_func(tree, "paths", REL))
    out = ["(* GENERATED by translator/tr_path.py from %s -- do not edit *)" % REL,
           "From Coq Require Import List Arith QArith Qreduction Bool.",
           "From EV Require Import Paths PathBase.", "Import ListNotations.", "Close Scope Q_scope.", "",
           "(* ---- top_path *)",
           "Definition gen_label_other : ext := %s." % t["label_other"],
           "Definition gen_label_source : ext := %s." % t["label_source"],
           "Definition gen_pop_index (mq : list ext) : nat := %s." % t["pop_index"],
           "Definition gen_exit_test (vs : list bool) : bool := %s." % t["exit_test"],
           "Definition gen_neighbor_test (x : Q) : bool := %s." % t["neighbor_test"],
           "Definition gen_clip (edge : Q) (up : ext) : ext := %s." % t["clip"],
           "Definition gen_relax_test (vis_j : bool) (new_j old_j : ext) : bool := %s." % t["relax_test"],
           "Definition gen_sink_index (ms : list ext) : nat := %s." % t["sink_index"],
           "Definition gen_top_path : nat -> fmat -> list nat -> list nat -> res (list nat * ext) :=",
           "  top_path_k gen_label_other gen_label_source gen_pop_index gen_exit_test gen_neighbor_test gen_clip",
           "             gen_relax_test gen_sink_index.", "",
           "(* ---- _remove_bottleneck (the matrix is copied first) *)",
           "Definition gen_rb_index (vals : list Q) : nat := %s." % rb["index"],
           "Definition gen_rb_value : Q := %s." % rb["value"],
           "Definition gen_remove_bottleneck : fmat -> list nat -> fmat := remove_bottleneck_k gen_rb_index gen_rb_value.", "",
           "(* ---- _subtract_path_flux (the matrix is copied first; exactly one cell is set afterwards) *)",
           "Definition gen_sp_amount (vals : list Q) : Q := %s." % sp["amount"],
           "Definition gen_sp_sub (x m : Q) : Q := %s." % sp["sub"],
           "Definition gen_sp_index (vals : list Q) : nat := %s." % sp["index"],
           "Definition gen_sp_value : Q := %s." % sp["value"],
           "Definition gen_subtract_path : fmat -> list nat -> fmat :=",
           "  subtract_path_k gen_sp_amount gen_sp_sub gen_sp_index gen_sp_value.", "",
           "(* ---- paths (the caller's matrix is copied before its first use) *)",
           "Definition gen_counter0 : nat := %s." % pa["counter0"],
           "Definition gen_expl0 : Q := %s." % pa["expl0"],
           "Definition gen_isinf_test (fl : ext) : bool := %s." % pa["isinf_test"],
           "Definition gen_expl_update (expl flux total : Q) : Q := %s." % pa["expl_update"],
           "Definition gen_counter_update (counter : nat) : nat := %s." % pa["counter_update"],
           "Definition gen_stop_test (counter : nat) (num_paths : option nat) (expl cutoff : Q) : bool := %s." % pa["stop_test"],
           "Definition gen_paths := paths_k gen_top_path gen_counter0 gen_expl0 gen_isinf_test gen_expl_update",
           "                                gen_counter_update gen_stop_test.",
           "(* remove_path = 'subtract' / 'bottleneck' *)",
           "Definition gen_scheme_subtract : fmat -> list nat -> fmat := gen_subtract_path.",
           "Definition gen_scheme_bottleneck : fmat -> list nat -> fmat := gen_remove_bottleneck.", ""]
    return {"Gen/PathGen.v": "\n".join(out)}


if __name__ == "__main__":
    import sys
    print(translate(sys.argv[1] if len(sys.argv) > 1 else "/repo")["Gen/PathGen.v"])
