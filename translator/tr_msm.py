"""enspara/msm/msm.py (MSM.__init__, MSM.fit, MSM.config, MSM.load) and
enspara/msm/timescales.py (calc_imp_times)  ->  Gen/MsmCfgGen.v

What is regenerated is the *configuration dataflow*: which constructor argument ends up in which
attribute, which attribute (or constant, or callee default) reaches which parameter of
assigns_to_counts / trim_disconnected / the builder, which attributes the config dict carries and
what MSM(**config) makes of them.  The numerical callees are parameters of the generated functions
(instantiated by Model/Msm.v with the models of C03, C11, C04).

Fail-closed: every statement must have one of the shapes listed below, every expression must be
`self.<attr>`, a local name, or a constant; anything else raises TranslatorReject.

__init__ :  self.<attr> = <param | constant>            (one record field per store)
            if callable(method): self.method = method
            else: self.method = getattr(builders, method)
fit      :  tcounts = assigns_to_counts(<args>)
            if <expr>:  [original_state_count = tcounts.shape[0]]
                        self.mapping_, tcounts = trim_disconnected(<args>)
                        [logger.<level>(...)]
            else:       self.mapping_ = TrimMapping(zip(range(tcounts.shape[0]), range(tcounts.shape[0])))
            self.tcounts_, self.tprobs_, self.eq_probs_ = self.method(tcounts)
config   :  return {'<key>': self.<attr>, ...}
load     :  must contain `msm = MSM(**config)` with config = pickle.load(...)
calc_imp_times : C = assigns_to_counts(<args>); if <expr>: mapping, C = trim_disconnected(<args>);
            _, T, _ = method(C); n_times += 1; try: e_vals, e_vecs = eigenspectrum(T, n_eigs=n_times) ...;
            imp_times = -lag_time / np.log(e_vals[1:]); return imp_times
Call arguments are bound to the callee's *own* signature (read from transition_matrices.py), so a
dropped keyword silently becomes the callee's default in the generated text, as it does in Python.
"""
import ast
from pyast import parse_file, find_func, reject, strip_doc

REL = "enspara/msm/msm.py"
REL_TM = "enspara/msm/transition_matrices.py"
REL_TS = "enspara/msm/timescales.py"

# attribute name -> type tag.  Z integer, B bool, OZ optional integer, F builder function
ATTR_TYPES = {"lag_time": "Z", "trim": "B", "sliding_window": "B", "max_n_states": "OZ", "method": "F"}
# constructor parameter types (method may be a callable or the name of a builder)
INIT_PARAM_TYPES = {"lag_time": "Z", "method": "MA", "trim": "B", "sliding_window": "B", "max_n_states": "OZ"}
COQ_TY = {"Z": "Z", "B": "bool", "OZ": "option Z", "F": "builder_fn", "MA": "method_arg",
          "A": "A", "C": "C"}
CALLEE_TYPES = {
    "assigns_to_counts": [("assigns", "A"), ("lag_time", "Z"), ("max_n_states", "OZ"), ("sliding_window", "B")],
    "trim_disconnected": [("counts", "C"), ("threshold", "Z"), ("renumber_states", "B")],
}


def const(e):
    """constant -> (coq text, type tag)"""
    if isinstance(e, ast.Constant):
        v = e.value
        if v is True:
            return "true", "B"
        if v is False:
            return "false", "B"
        if v is None:
            return "None", "NONE"
        if isinstance(v, int):
            return "(%d)" % v, "Z"
    if isinstance(e, ast.UnaryOp) and isinstance(e.op, ast.USub) and isinstance(e.operand, ast.Constant) \
            and isinstance(e.operand.value, int) and not isinstance(e.operand.value, bool):
        return "(-%d)" % e.operand.value, "Z"
    reject(e, "expected a constant (True/False/None/integer)")


def coerce(text, ty, want, node):
    if ty == want:
        return text
    if want == "OZ" and ty == "NONE":
        return "(@None Z)"
    if want == "OZ" and ty == "Z":
        return "(Some %s)" % text
    if want == "MA" and ty == "F":
        return "(ByCallable %s)" % text          # a stored builder function is callable
    reject(node, "type mismatch: have %s, need %s" % (ty, want))


def expr(e, env, selfname="self", attrs=()):
    """argument expression -> (coq text, type tag).  env: local name -> type tag"""
    if isinstance(e, ast.Attribute) and isinstance(e.value, ast.Name) and e.value.id == selfname:
        if e.attr not in attrs:
            reject(e, "attribute %s is not stored by __init__" % e.attr)
        return "(a_%s self)" % e.attr, ATTR_TYPES[e.attr]
    if isinstance(e, ast.Name):
        if e.id not in env:
            reject(e, "unknown name")
        return e.id, env[e.id]
    return const(e)


def signature(fn, types, skip_self=False):
    """[(name, type, default-or-None)] of a def, defaults must be constants"""
    a = fn.args
    if a.vararg or a.kwarg or a.kwonlyargs or a.posonlyargs:
        reject(fn, "unsupported parameter kinds")
    names = [x.arg for x in a.args]
    if skip_self:
        if not names or names[0] != "self":
            reject(fn, "expected self")
        names = names[1:]
    nd = len(a.defaults)
    out = []
    for i, n in enumerate(names):
        if n not in types:
            reject(fn, "unexpected parameter %s" % n)
        d = None
        k = i - (len(names) - nd)
        if k >= 0:
            t, ty = const(a.defaults[k])
            d = coerce(t, ty, types[n], a.defaults[k])
        out.append((n, types[n], d))
    return out


def bind_call(call, sig, env, attrs, what):
    """Python argument binding of `call` against sig -> coq texts in signature order."""
    if not isinstance(call, ast.Call):
        reject(call, "expected a call of %s" % what)
    bound = {}
    if len(call.args) > len(sig):
        reject(call, "too many positional arguments")
    for (n, ty, _), a in zip(sig, call.args):
        if isinstance(a, ast.Starred):
            reject(a, "starred argument")
        t, have = expr(a, env, attrs=attrs)
        bound[n] = coerce(t, have, ty, a)
    names = {n: ty for n, ty, _ in sig}
    for kw in call.keywords:
        if kw.arg is None or kw.arg not in names or kw.arg in bound:
            reject(call, "bad keyword %s" % kw.arg)
        t, have = expr(kw.value, env, attrs=attrs)
        bound[kw.arg] = coerce(t, have, names[kw.arg], kw.value)
    out = []
    for n, ty, d in sig:
        if n in bound:
            out.append(bound[n])
        elif d is not None:
            out.append(d)
        else:
            reject(call, "required argument %s of %s missing" % (n, what))
    return out


def is_call_to(e, name):
    return isinstance(e, ast.Call) and isinstance(e.func, ast.Name) and e.func.id == name


def is_logging(s):
    return (isinstance(s, ast.Expr) and isinstance(s.value, ast.Call) and isinstance(s.value.func, ast.Attribute)
            and isinstance(s.value.func.value, ast.Name) and s.value.func.value.id == "logger"
            and s.value.func.attr in ("debug", "info", "warning", "error"))


def target_names(s):
    if not isinstance(s, ast.Assign) or len(s.targets) != 1:
        reject(s, "expected a single assignment")
    t = s.targets[0]
    if isinstance(t, ast.Tuple):
        return [ast.unparse(x) for x in t.elts]
    return [ast.unparse(t)]


def tr_init(cls_fn):
    sig = signature(cls_fn, INIT_PARAM_TYPES, skip_self=True)
    env = {n: ty for n, ty, _ in sig}
    stores = []          # (attr, coq text) in source order
    seen = set()

    def store(attr, text, node):
        if attr in seen:
            reject(node, "attribute %s stored twice" % attr)
        seen.add(attr)
        stores.append((attr, text))
    for s in strip_doc(cls_fn.body):
        if isinstance(s, ast.Assign):
            tg = target_names(s)
            if len(tg) != 1 or not tg[0].startswith("self."):
                reject(s, "expected self.<attr> = ...")
            attr = tg[0][5:]
            if attr not in ATTR_TYPES:
                reject(s, "unknown attribute %s" % attr)
            t, have = expr(s.value, env, attrs=())
            store(attr, coerce(t, have, ATTR_TYPES[attr], s), s)
        elif isinstance(s, ast.If):
            ok = (ast.unparse(s.test) == "callable(method)" and len(s.body) == 1 and len(s.orelse) == 1
                  and ast.unparse(s.body[0]) == "self.method = method"
                  and ast.unparse(s.orelse[0]) == "self.method = getattr(builders, method)"
                  and env.get("method") == "MA")
            if not ok:
                reject(s, "expected the callable(method)/getattr(builders, method) pattern")
            store("method", "(resolve_method method)", s)
        else:
            reject(s, "unsupported statement in __init__")
    return sig, stores


def tr_fit(fn, attrs, sigs):
    if [a.arg for a in fn.args.args] != ["self", "assigns"]:
        reject(fn, "unexpected signature of fit")
    b = strip_doc(fn.body)
    if len(b) != 3:
        reject(fn, "fit: expected 3 statements, got %d" % len(b))
    env = {"assigns": "A"}
    s = b[0]
    if target_names(s) != ["tcounts"] or not is_call_to(s.value, "assigns_to_counts"):
        reject(s, "expected tcounts = assigns_to_counts(...)")
    cargs = bind_call(s.value, sigs["assigns_to_counts"], env, attrs, "assigns_to_counts")
    env["tcounts"] = "C"
    iff = b[1]
    if not isinstance(iff, ast.If):
        reject(iff, "expected if self.trim: ...")
    test, tty = expr(iff.test, env, attrs=attrs)
    if tty != "B":
        reject(iff.test, "trim test is not a bool")
    targs = None
    for s in iff.body:
        if is_logging(s) or ast.unparse(s) == "original_state_count = tcounts.shape[0]":
            continue
        if targs is None and isinstance(s, ast.Assign) and target_names(s) == ["self.mapping_", "tcounts"] \
                and is_call_to(s.value, "trim_disconnected"):
            targs = bind_call(s.value, sigs["trim_disconnected"], env, attrs, "trim_disconnected")
            continue
        reject(s, "unsupported statement in the trimming branch")
    if targs is None:
        reject(iff, "no trim_disconnected call in the trimming branch")
    if len(iff.orelse) != 1 or ast.unparse(iff.orelse[0]) != \
            "self.mapping_ = TrimMapping(zip(range(tcounts.shape[0]), range(tcounts.shape[0])))":
        reject(iff, "expected the identity TrimMapping in the else branch")
    s = b[2]
    if target_names(s) != ["self.tcounts_", "self.tprobs_", "self.eq_probs_"]:
        reject(s, "expected self.tcounts_, self.tprobs_, self.eq_probs_ = ...")
    c = s.value
    if not (isinstance(c, ast.Call) and len(c.args) == 1 and not c.keywords and ast.unparse(c.args[0]) == "tcounts"):
        reject(s, "expected <method>(tcounts)")
    m, mty = expr(c.func, env, attrs=attrs)
    if mty != "F":
        reject(c.func, "the builder is not the stored method")
    return cargs, test, targs, m


def tr_config(fn, attrs):
    b = strip_doc(fn.body)
    if len(b) != 1 or not isinstance(b[0], ast.Return) or not isinstance(b[0].value, ast.Dict):
        reject(fn, "config: expected `return {...}`")
    out = {}
    for k, v in zip(b[0].value.keys, b[0].value.values):
        if not (isinstance(k, ast.Constant) and isinstance(k.value, str)) or k.value in out:
            reject(fn, "config: keys must be distinct string literals")
        if k.value not in INIT_PARAM_TYPES:
            reject(k, "config key %r is not a constructor parameter (MSM(**config) would raise)" % k.value)
        out[k.value] = expr(v, {}, attrs=attrs)
    return out


def check_load(fn):
    src = [ast.unparse(s) for s in ast.walk(fn) if isinstance(s, ast.Assign)]
    if "config = pickle.load(f)" not in src or "msm = MSM(**config)" not in src:
        reject(fn, "load: expected config = pickle.load(f); msm = MSM(**config)")


def check_save(fn):
    src = [ast.unparse(s) for s in ast.walk(fn) if isinstance(s, ast.Expr)]
    if "pickle.dump(self.config, f)" not in src:
        reject(fn, "save: expected pickle.dump(self.config, f)")


def tr_imp(fn, sigs):
    params = [a.arg for a in fn.args.args]
    types = {"assigns": "A", "lag_time": "Z", "n_states": "Z", "n_times": "Z", "sliding_window": "B", "trim": "B"}
    if sorted(params) != sorted(list(types) + ["method"]) or fn.args.defaults:
        reject(fn, "unexpected signature of calc_imp_times: %s" % params)
    env = dict(types)
    b = strip_doc(fn.body)
    if len(b) != 7:
        reject(fn, "calc_imp_times: expected 7 statements, got %d" % len(b))
    s = b[0]
    if target_names(s) != ["C"] or not is_call_to(s.value, "assigns_to_counts"):
        reject(s, "expected C = assigns_to_counts(...)")
    cargs = bind_call(s.value, sigs["assigns_to_counts"], env, (), "assigns_to_counts")
    env["C"] = "C"
    iff = b[1]
    if not (isinstance(iff, ast.If) and not iff.orelse and len(iff.body) == 1
            and target_names(iff.body[0]) == ["mapping", "C"] and is_call_to(iff.body[0].value, "trim_disconnected")):
        reject(iff, "expected if trim: mapping, C = trim_disconnected(C)")
    test, tty = expr(iff.test, env)
    if tty != "B":
        reject(iff.test, "trim test is not a bool")
    targs = bind_call(iff.body[0].value, sigs["trim_disconnected"], env, (), "trim_disconnected")
    if ast.unparse(b[2]) != "_, T, _ = method(C)":
        reject(b[2], "expected _, T, _ = method(C)")
    if ast.unparse(b[3]) != "n_times += 1":
        reject(b[3], "expected n_times += 1")
    t = b[4]
    if not (isinstance(t, ast.Try) and len(t.body) == 1 and not t.orelse and not t.finalbody
            and ast.unparse(t.body[0]) == "e_vals, e_vecs = eigenspectrum(T, n_eigs=n_times)"
            and all(isinstance(h.body[-1], ast.Raise) and h.body[-1].exc is None for h in t.handlers)):
        reject(t, "expected try: e_vals, e_vecs = eigenspectrum(T, n_eigs=n_times) with re-raising handlers")
    if ast.unparse(b[5]) != "imp_times = -lag_time / np.log(e_vals[1:])":
        reject(b[5], "expected imp_times = -lag_time / np.log(e_vals[1:])")
    if ast.unparse(b[6]) != "return imp_times":
        reject(b[6], "expected return imp_times")
    return params, cargs, test, targs


def translate(repo):
    tree, _ = parse_file(repo, REL)
    tm, _ = parse_file(repo, REL_TM)
    ts, _ = parse_file(repo, REL_TS)
    sigs = {n: signature(find_func(tm, n, REL_TM), dict(CALLEE_TYPES[n])) for n in CALLEE_TYPES}
    for n in CALLEE_TYPES:
        if [x[0] for x in sigs[n]] != [x[0] for x in CALLEE_TYPES[n]]:
            reject(find_func(tm, n, REL_TM), "parameter order of %s changed" % n)
    init = find_func(tree, "__init__", REL, cls="MSM")
    isig, stores = tr_init(init)
    attrs = [a for a, _ in stores]
    cargs, test, targs, meth = tr_fit(find_func(tree, "fit", REL, cls="MSM"), attrs, sigs)
    cfg = tr_config(find_func(tree, "config", REL, cls="MSM"), attrs)
    check_load(find_func(tree, "load", REL, cls="MSM"))
    check_save(find_func(tree, "save", REL, cls="MSM"))
    iparams, icargs, itest, itargs = tr_imp(find_func(ts, "calc_imp_times", REL_TS), sigs)

    o = ["(* GENERATED by translator/tr_msm.py from %s (MSM.__init__, fit, config, load), %s (calc_imp_times)"
         % (REL, REL_TS),
         "   and the signatures of assigns_to_counts / trim_disconnected in %s -- do not edit *)" % REL_TM,
         "From Coq Require Import ZArith.", "From EV Require Import MsmBase.", "Open Scope Z_scope.", ""]
    # record of stored attributes
    o.append("(* one field per `self.x = e` of MSM.__init__ *)")
    o.append("Record self_t := { %s }." % "; ".join("a_%s : %s" % (a, COQ_TY[ATTR_TYPES[a]]) for a in attrs))
    o.append("")
    o.append("Definition init %s : self_t :=\n  {| %s |}." % (
        " ".join("(%s : %s)" % (n, COQ_TY[ty]) for n, ty, _ in isig),
        "; ".join("a_%s := %s" % (a, t) for a, t in stores)))
    for n, ty, d in isig:
        if d is not None:
            o.append("Definition init_default_%s : %s := %s." % (n, COQ_TY[ty], d))
    o.append("")
    # fit
    o.append("(* MSM.fit; callee parameters in the callees' own order: assigns_to_counts(%s), trim_disconnected(%s) *)"
             % (", ".join(x[0] for x in sigs["assigns_to_counts"]), ", ".join(x[0] for x in sigs["trim_disconnected"])))
    o.append("""Definition fit {A C M R : Type}
    (assigns_to_counts : A -> Z -> option Z -> bool -> option C)
    (trim_disconnected : C -> Z -> bool -> option (M * C))
    (identity_mapping : C -> M)
    (call : builder_fn -> C -> option R)
    (self : self_t) (assigns : A) : option (M * R) :=
  match assigns_to_counts %s with
  | None => None
  | Some tcounts =>
      match (if %s then trim_disconnected %s else Some (identity_mapping tcounts, tcounts)) with
      | None => None
      | Some (mapping_, tcounts) =>
          match call %s tcounts with
          | None => None
          | Some r => Some (mapping_, r)
          end
      end
  end.
""" % (" ".join(cargs), test, " ".join(targs), meth))
    # config / load
    o.append("(* MSM.config as keyword arguments of the constructor: None = key absent *)")
    o.append("Record config_t := { %s }." % "; ".join(
        "k_%s : option (%s)" % (n, COQ_TY[ATTR_TYPES[n]]) for n, _, _ in isig))
    fields = []
    for n, ty, _ in isig:
        if n in cfg:
            t, have = cfg[n]
            if have != ATTR_TYPES[n]:
                reject(init, "config[%r] has type %s, the attribute %s has %s" % (n, have, n, ATTR_TYPES[n]))
            fields.append("k_%s := Some %s" % (n, t))
        else:
            fields.append("k_%s := None" % n)
    o.append("Definition config (self : self_t) : config_t :=\n  {| %s |}." % "; ".join(fields))
    o.append("")
    o.append("(* MSM.load: the constructor called with the config dict as keyword arguments; a missing key without default is a TypeError (None) *)")
    req = [(n, ty) for n, ty, d in isig if d is None]
    args = []
    for n, ty, d in isig:
        v = "v_%s" % n
        if d is None:
            args.append(coerce(v, ATTR_TYPES[n], ty, init))
        else:
            args.append("(match k_%s c with Some x => %s | None => init_default_%s end)"
                        % (n, coerce("x", ATTR_TYPES[n], ty, init), n))
    body = "Some (init %s)" % " ".join(args)
    for n, ty in reversed(req):
        body = "match k_%s c with None => None | Some v_%s => %s end" % (n, n, body)
    o.append("Definition load_init (c : config_t) : option self_t :=\n  %s." % body)
    o.append("")
    # calc_imp_times
    o.append("(* timescales.calc_imp_times(%s): everything up to the transition matrix; then" % ", ".join(iparams))
    o.append("   n_times += 1; e_vals = eigenspectrum(T, n_eigs=n_times)[0]; -lag_time / np.log(e_vals[1:])  (checked verbatim) *)")
    o.append("""Definition imp_pipeline {A C M R : Type}
    (assigns_to_counts : A -> Z -> option Z -> bool -> option C)
    (trim_disconnected : C -> Z -> bool -> option (M * C))
    (method : C -> option R)
    (assigns : A) (lag_time n_states : Z) (sliding_window trim : bool) : option R :=
  match assigns_to_counts %s with
  | None => None
  | Some C =>
      match (if %s then option_map snd (trim_disconnected %s) else Some C) with
      | None => None
      | Some C => method C
      end
  end.
Definition imp_n_eigs (n_times : Z) : Z := n_times + 1.
""" % (" ".join(icargs), itest, " ".join(itargs)))
    return {"Gen/MsmCfgGen.v": "\n".join(o)}


if __name__ == "__main__":
    import sys
    print(translate(sys.argv[1] if len(sys.argv) > 1 else "/repo")["Gen/MsmCfgGen.v"])
